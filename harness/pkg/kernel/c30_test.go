package kernel

import (
	"bytes"
	"encoding/binary"
	"encoding/hex"
	"fmt"
	"github.com/dgraph-io/ristretto/v2"
	"math/big"
	"math/rand"
	"sync"
	"testing"
	"time"

	"github.com/MixinNetwork/mixin/common"
	"github.com/MixinNetwork/mixin/crypto"
	"github.com/MixinNetwork/mixin/kernel/internal/clock"
	"github.com/MixinNetwork/mixin/p2p"
	"github.com/MixinNetwork/mixin/verifkit"
)

// ---------------------------------------------------------------------------
// C30 — peer authentication binds identity, recipient, freshness and role.
//
// The monitor observes every AuthenticateAs call (token / error / panic) made
// on messages whose ground truth is known by construction, because the harness
// owns every private key:
//   legit     the 137 bytes are exactly a message that the named key signed
//             (built by BuildAuthenticationMessage, or signed by the harness
//             with that key); every mutant and every wrong-signer forgery is
//             not legit
//   addressed bytes 8..40 equal the recipient id the receiver authenticates as
//   fresh     timeout == 0 (the caller allows any skew) or |clock - ts| <= timeout,
//             where clock is the mock-clock second bracketing the call and ts
//             the timestamp in the message
//   notSelf   the node id of the named key (as node setup derives it) differs
//             from the recipient id
// Oracle: accepted  =>  legit && addressed && fresh && notSelf.
// For accepted messages: token.PeerId is the node id of the named key and
// token.IsRelayer is the role the signer signed.
// Mutants are presented in the way most favourable to an attacker: the receiver
// authenticates as whatever recipient the mutant names, with no freshness limit
// (or with the clock moved onto the mutant's timestamp), so only the signature
// can stop them.
// ---------------------------------------------------------------------------

type vC30Actor struct {
	node *Node
	priv crypto.Key
	name string
}

// vC30NodeId derives a node id from a signer key the way node setup does
// (kernel/node.go LoadNodeConfig + kernel/genesis.go).
func vC30NodeId(spend crypto.Key, net crypto.Hash) crypto.Hash {
	var a common.Address
	a.PublicSpendKey = spend
	a.PrivateViewKey = a.PublicSpendKey.DeterministicHashDerive()
	a.PublicViewKey = a.PrivateViewKey.Public()
	return a.Hash().ForNetwork(net)
}

func vC30NewActor(rng *rand.Rand, net crypto.Hash, relayer bool, name string) *vC30Actor {
	seed := make([]byte, 64)
	rng.Read(seed)
	priv := crypto.NewKeyFromSeed(seed)
	return vC30ActorFromKey(priv, net, relayer, name)
}

func vC30ActorFromKey(priv crypto.Key, net crypto.Hash, relayer bool, name string) *vC30Actor {
	var a common.Address
	a.PrivateSpendKey = priv
	a.PublicSpendKey = priv.Public()
	a.PrivateViewKey = a.PublicSpendKey.DeterministicHashDerive()
	a.PublicViewKey = a.PrivateViewKey.Public()
	n := &Node{Signer: a, networkId: net, isRelayer: relayer}
	n.IdForNetwork = n.Signer.Hash().ForNetwork(n.networkId)
	// a running node has its verification cache; whatever the authentication path remembers there must not
	// change its answers
	if cache, err := ristretto.NewCache(&ristretto.Config[[]byte, any]{NumCounters: 1e4, MaxCost: 1 << 22, BufferItems: 64}); err == nil {
		n.cacheStore = cache
	}
	return &vC30Actor{node: n, priv: priv, name: name}
}

// vC30SetClock moves the mock clock to the middle of the given unix second.
func vC30SetClock(target int64) {
	now := clock.Now()
	clock.MockDiff(time.Unix(target, 500_000_000).Sub(now))
}

// vC30Forge signs an arbitrary 73-byte body with the given private key exactly
// as a node would (Blake3 of the body, Key.Sign).
func vC30Forge(ts uint64, recipient crypto.Hash, named crypto.Key, flag byte, signWith *crypto.Key) []byte {
	data := make([]byte, 8)
	binary.BigEndian.PutUint64(data, ts)
	data = append(data, recipient[:]...)
	data = append(data, named[:]...)
	data = append(data, flag)
	sig := signWith.Sign(crypto.Blake3Hash(data))
	return append(data, sig[:]...)
}

type vC30Case struct {
	class     string // stable input-class name (goes into the signature)
	msg       []byte
	recipient crypto.Hash
	timeout   int64
	clock     int64 // mock-clock second for the call; -1 = leave the clock alone (requires timeout == 0)
	legit     bool
	// expectations for accepted messages (only set for builder messages)
	sender *vC30Actor
	base   string // key of the base message, for non-triviality bookkeeping
}

type vC30Mon struct {
	r        *verifkit.Run
	mu       sync.Mutex
	signed   map[string]bool // every 137-byte message that its named key really signed
	accepted map[string]bool // base messages that were accepted in a valid presentation
}

func (m *vC30Mon) markSigned(msg []byte) {
	m.mu.Lock()
	m.signed[string(msg)] = true
	m.mu.Unlock()
}

func (m *vC30Mon) isSigned(msg []byte) bool {
	m.mu.Lock()
	defer m.mu.Unlock()
	return m.signed[string(msg)]
}

func vC30AbsSkew(clockSec int64, ts uint64) *big.Int {
	d := new(big.Int).Sub(big.NewInt(clockSec), new(big.Int).SetUint64(ts))
	return d.Abs(d)
}

// run executes one observed call and applies the oracle. Returns whether the
// message was accepted; evaluated=false when the clock bracket failed.
func (m *vC30Mon) run(recv *vC30Actor, c *vC30Case) (acceptedCall bool, evaluated bool) {
	r := m.r
	var token *p2p.AuthToken
	var err error
	var panicked bool
	var pval any
	var stack string
	clockSec := int64(-1)
	if recv.node.cacheStore != nil {
		recv.node.cacheStore.Wait()
	}
	if c.clock >= 0 {
		okBracket := false
		for attempt := 0; attempt < 6 && !okBracket; attempt++ {
			vC30SetClock(c.clock)
			before := clock.Now().Unix()
			panicked, pval, stack = verifkit.Guard(func() { token, err = recv.node.AuthenticateAs(c.recipient, c.msg, c.timeout) })
			after := clock.Now().Unix()
			okBracket = before == c.clock && after == c.clock
			if !okBracket {
				r.Count("clock_bracket_retries", 1)
			}
		}
		if !okBracket {
			r.Count("cases_dropped_clock_not_bracketed", 1)
			return false, false
		}
		clockSec = c.clock
	} else {
		if c.timeout != 0 {
			panic("verif C30: a case without clock control must not limit the skew")
		}
		panicked, pval, stack = verifkit.Guard(func() { token, err = recv.node.AuthenticateAs(c.recipient, c.msg, 0) })
	}
	r.Eval()
	r.Count("calls_"+c.class, 1)

	wit := map[string]any{
		"class": c.class, "message": hex.EncodeToString(c.msg), "authenticate_as": c.recipient.String(),
		"timeout_s": c.timeout, "clock_unix": clockSec, "receiver": recv.node.IdForNetwork.String(),
		"receiver_network": recv.node.networkId.String(),
	}
	if panicked {
		r.Violation("C30|panic "+verifkit.PanicSite(stack)+"|"+c.class,
			fmt.Sprintf("AuthenticateAs panicked on a %s message: %v", c.class, pval), wit)
		return false, true
	}
	if err != nil || token == nil {
		if err != nil {
			wit["error"] = err.Error()
		}
		r.Count("rejected", 1)
		return false, true
	}
	r.Count("accepted", 1)

	// ---- accepted: every conjunct must hold ----
	if len(c.msg) != 137 {
		r.Violation("C30|kernel.AuthenticateAs|accepted-malformed-length|"+c.class, "a message that is not 137 bytes long was accepted", wit)
		return true, true
	}
	ts := binary.BigEndian.Uint64(c.msg[:8])
	var named crypto.Key
	copy(named[:], c.msg[40:72])
	legit := c.legit && m.isSigned(c.msg)
	if !legit {
		r.Violation("C30|kernel.AuthenticateAs|accepted-not-signed-by-named-key|"+c.class,
			"accepted a message whose bytes were never signed by the key it names ("+c.class+")", wit)
	}
	if !bytes.Equal(c.msg[8:40], c.recipient[:]) {
		r.Violation("C30|kernel.AuthenticateAs|accepted-for-other-recipient|"+c.class,
			"accepted a message addressed to another node than the one authenticating", wit)
	}
	if c.timeout > 0 {
		skew := vC30AbsSkew(clockSec, ts)
		wit["skew_s"] = skew.String()
		if skew.Cmp(big.NewInt(c.timeout)) > 0 {
			dir := "stale"
			if new(big.Int).SetUint64(ts).Cmp(big.NewInt(clockSec)) > 0 {
				dir = "future"
			}
			r.Violation("C30|kernel.AuthenticateAs|accepted-outside-clock-skew|"+dir+"|"+c.class,
				fmt.Sprintf("accepted a %s message: |clock-ts| = %s s > timeout %d s", dir, skew, c.timeout), wit)
		}
	}
	id := vC30NodeId(named, recv.node.networkId)
	if id == c.recipient {
		r.Violation("C30|kernel.AuthenticateAs|accepted-from-self|"+c.class, "accepted a message whose signer is the authenticating node itself", wit)
	}
	wit["token_peer"] = token.PeerId.String()
	wit["token_relayer"] = token.IsRelayer
	if token.PeerId != id {
		r.Violation("C30|kernel.AuthenticateAs|peer-id-not-derived-from-named-key|"+c.class,
			"the token's peer id is not the node id of the key named in the message", wit)
	}
	if c.sender != nil && legit {
		if c.sender.node.networkId == recv.node.networkId && token.PeerId != c.sender.node.IdForNetwork {
			r.Violation("C30|kernel.AuthenticateAs|peer-id-not-the-sender|"+c.class, "the token's peer id is not the id of the node that built the message", wit)
		}
		if token.IsRelayer != c.sender.node.isRelayer {
			r.Violation("C30|kernel.AuthenticateAs|relayer-flag-not-the-signed-role|"+c.class,
				fmt.Sprintf("token says relayer=%v, the signer built the message as relayer=%v", token.IsRelayer, c.sender.node.isRelayer), wit)
		}
	}
	return true, true
}

// build lets the sender build a message with the clock held at second at.
func (m *vC30Mon) build(sender *vC30Actor, recipient crypto.Hash, at int64) []byte {
	for attempt := 0; attempt < 6; attempt++ {
		vC30SetClock(at)
		before := clock.Now().Unix()
		var msg []byte
		panicked, pval, stack := verifkit.Guard(func() { msg = sender.node.BuildAuthenticationMessage(recipient) })
		after := clock.Now().Unix()
		if panicked {
			m.r.Violation("C30|panic "+verifkit.PanicSite(stack)+"|build", fmt.Sprintf("BuildAuthenticationMessage panicked: %v", pval),
				map[string]any{"recipient": recipient.String(), "clock_unix": at})
			return nil
		}
		if before == at && after == at {
			m.markSigned(msg)
			return msg
		}
		m.r.Count("clock_bracket_retries", 1)
	}
	m.r.Count("cases_dropped_clock_not_bracketed", 1)
	return nil
}

func vC30RandHash(rng *rand.Rand) crypto.Hash {
	var h crypto.Hash
	rng.Read(h[:])
	return h
}

var vC30Timeouts = []int64{1, 2, 3, 10, 10, 10, 60, 3600, 86400, 1 << 31}

// mutants enumerates the mutation classes of one accepted base message.
// every=true: all 1096 bit flips and nsub substitutions per offset.
func vC30Mutants(rng *rand.Rand, base []byte, nsub int, others [][]byte, emit func(class string, id uint32, msg []byte)) {
	field := func(off int) string {
		switch {
		case off < 8:
			return "timestamp"
		case off < 40:
			return "recipient"
		case off < 72:
			return "key"
		case off < 73:
			return "flag"
		case off < 105:
			return "signature-R"
		default:
			return "signature-S"
		}
	}
	for bit := 0; bit < 137*8; bit++ {
		mm := bytes.Clone(base)
		mm[bit/8] ^= 1 << uint(bit%8)
		emit("bitflip-"+field(bit/8), uint32(bit), mm)
	}
	for off := 0; off < 137; off++ {
		for k := 0; k < nsub; k++ {
			v := byte(rng.Intn(256))
			if v == base[off] {
				v++
			}
			mm := bytes.Clone(base)
			mm[off] = v
			emit("substitution-"+field(off), 1<<16|uint32(off)<<8|uint32(v), mm)
		}
	}
	// every value of the role byte
	for v := 0; v < 256; v++ {
		if byte(v) == base[72] {
			continue
		}
		mm := bytes.Clone(base)
		mm[72] = byte(v)
		emit("role-byte-value", 2<<16|uint32(v), mm)
	}
	// timestamp arithmetic
	ts := binary.BigEndian.Uint64(base[:8])
	for i, nts := range []uint64{ts + 1, ts - 1, ts + 10, ts - 10, ts + 3600, 0, 1, 1 << 32, 1 << 53, 1 << 63, ^uint64(0), ts << 8, ts >> 8} {
		if nts == ts {
			continue
		}
		mm := bytes.Clone(base)
		binary.BigEndian.PutUint64(mm[:8], nts)
		emit("timestamp-rewrite", 3<<16|uint32(i), mm)
	}
	// length changes
	for i, n := range []int{0, 1, 8, 40, 72, 73, 105, 136} {
		emit("truncated", 4<<16|uint32(i), bytes.Clone(base[:n]))
	}
	emit("extended", 5<<16, append(bytes.Clone(base), 0))
	emit("extended", 5<<16|1, append(bytes.Clone(base), byte(rng.Intn(256))))
	emit("extended", 5<<16|2, append(bytes.Clone(base), base[73:]...))
	emit("extended", 5<<16|3, append([]byte{0}, base...))
	// splices with other genuinely signed messages
	for i, o := range others {
		if len(o) != 137 || bytes.Equal(o, base) {
			continue
		}
		mm := bytes.Clone(base) // other signer's signature over this body
		copy(mm[73:], o[73:])
		if !bytes.Equal(mm, base) {
			emit("splice-foreign-signature", 6<<16|uint32(i), mm)
		}
		mm = bytes.Clone(base) // other key named, signature kept
		copy(mm[40:72], o[40:72])
		if !bytes.Equal(mm, base) {
			emit("splice-foreign-key", 7<<16|uint32(i), mm)
		}
		mm = bytes.Clone(base) // other key and its signature, this header
		copy(mm[40:72], o[40:72])
		copy(mm[73:], o[73:])
		if !bytes.Equal(mm, base) && !bytes.Equal(mm, o) {
			emit("splice-foreign-key-and-signature", 8<<16|uint32(i), mm)
		}
		mm = bytes.Clone(base) // redirect to the other message's recipient
		copy(mm[8:40], o[8:40])
		if !bytes.Equal(mm, base) {
			emit("splice-foreign-recipient", 9<<16|uint32(i), mm)
		}
		mm = bytes.Clone(base) // half signatures
		copy(mm[73:105], o[73:105])
		if !bytes.Equal(mm, base) {
			emit("splice-foreign-R", 10<<16|uint32(i), mm)
		}
	}
}

// TestVerif_C30: peer authentication binds identity, recipient, freshness and role.
func TestVerif_C30(t *testing.T) {
	r := verifkit.Start(t, "C30", "exploration")
	defer clock.Reset()
	r.SetRule("random signer keys, networks, relayer roles and recipients; messages built by BuildAuthenticationMessage under the mock clock (plus harness-signed ones with arbitrary fields) and " +
		"authenticated with the clock at ts±{0,1,timeout-1,timeout,timeout+1,random,far} for timeouts 1 s..2^31 s and 0; wrong recipients, the receiver's own messages, wrong-signer forgeries; " +
		"for every accepted base message all 1096 single-bit flips, sampled single-byte substitutions at every offset, every role-byte value, timestamp rewrites, length changes and splices with " +
		"other genuinely signed messages, each presented as favourably as an attacker could (receiver authenticates as the named recipient, no skew limit or clock moved onto the mutant's timestamp). " +
		"non-trivial = a distinct accepted (message, presentation) or a distinct attack variant derived from a base message that the receiver did accept in its valid presentation")
	r.Assume("the harness is the only holder of the private keys, so a 137-byte string it did not produce by signing is not signed by the named key (single-bit/byte changes of an Ed25519 signature never yield another valid signature of the same message)")
	r.Assume("clock skew is measured between the message timestamp and the kernel mock clock second that brackets the call (cases where the second ticked during the call are retried); timeout 0 means the caller allows any skew")
	r.Assume("AuthenticateAs / BuildAuthenticationMessage only use Node.Signer, networkId and isRelayer, so nodes are constructed as bare structs; the QUIC handshake around them (p2p/peer.go) is not driven")
	r.Assume("timeouts above 2^31 s and timestamps between 2^53 and 2^64 combined with such timeouts (float64 rounding in the comparison) are outside the explored space")
	rng := r.Rand()
	mon := &vC30Mon{r: r, signed: map[string]bool{}, accepted: map[string]bool{}}

	nWorlds := r.N(6, 60)
	nSweepPerWorld := r.N(30, 80) // base messages with a full skew sweep (sequential, clock-controlled)
	nMutBases := r.N(200, 3000)   // base messages whose mutants are enumerated (parallel, no clock dependence)
	nsub := r.N(2, 3)
	nClockMut := r.N(12, 300) // bases whose timestamp mutants are replayed with the clock moved onto them

	type mutJob struct {
		recv   *vC30Actor
		sender *vC30Actor
		base   []byte
		others [][]byte
		seed   int64
	}
	var jobs []mutJob
	var clockJobs []mutJob
	sampled := 0

	for w := 0; w < nWorlds; w++ {
		net := vC30RandHash(rng)
		actors := []*vC30Actor{}
		for i := 0; i < 5; i++ {
			actors = append(actors, vC30NewActor(rng, net, rng.Intn(2) == 0, fmt.Sprintf("w%d-n%d", w, i)))
		}
		otherNet := vC30RandHash(rng)
		var pool [][]byte // genuinely signed messages of this world, for splices
		for k := 0; k < nSweepPerWorld; k++ {
			si := rng.Intn(len(actors))
			ri := (si + 1 + rng.Intn(len(actors)-1)) % len(actors)
			sender, recv := actors[si], actors[ri]
			// build time: around now, around 2^31/2^32, far future
			var tb int64
			switch rng.Intn(6) {
			case 0:
				tb = int64(1)<<31 + int64(rng.Intn(7)) - 3
			case 1:
				tb = int64(1)<<32 + int64(rng.Intn(7)) - 3
			case 2:
				tb = 100000 + rng.Int63n(1<<32)
			default:
				tb = 1_700_000_000 + rng.Int63n(400_000_000)
			}
			timeout := vC30Timeouts[rng.Intn(len(vC30Timeouts))]
			if rng.Intn(8) == 0 {
				timeout = 1 + rng.Int63n(100000)
			}
			msg := mon.build(sender, recv.node.IdForNetwork, tb)
			if msg == nil || len(msg) != 137 {
				if msg != nil {
					r.Violation("C30|kernel.BuildAuthenticationMessage|not-137-bytes", fmt.Sprintf("built message has %d bytes", len(msg)), map[string]any{"message": hex.EncodeToString(msg)})
				}
				continue
			}
			ts := binary.BigEndian.Uint64(msg[:8])
			if ts > 1<<40 {
				r.Count("built_messages_with_implausible_timestamp", 1)
				continue
			}
			baseKey := string(msg[73:85])
			pool = append(pool, msg)
			if sampled < 2 {
				sampled++
				r.Sample(map[string]any{"kind": "built message", "message": hex.EncodeToString(msg), "sender": sender.node.IdForNetwork.String(),
					"sender_is_relayer": sender.node.isRelayer, "recipient": recv.node.IdForNetwork.String(), "built_at_unix": tb, "timeout_s": timeout})
			}

			// -- valid presentation and skew sweep
			deltas := []int64{0, 1, -1, timeout - 1, -(timeout - 1), timeout, -timeout, timeout + 1, -(timeout + 1),
				timeout + 2, -(timeout + 2), 2 * timeout, -2 * timeout, rng.Int63n(timeout + 1), -rng.Int63n(timeout + 1),
				timeout + 1 + rng.Int63n(1<<20), -(timeout + 1 + rng.Int63n(1<<20)), 1 << 32, -(1 << 32)}
			for _, d := range deltas {
				at := int64(ts) + d
				if at < 0 {
					continue
				}
				c := &vC30Case{class: "valid-within-skew", msg: msg, recipient: recv.node.IdForNetwork, timeout: timeout, clock: at, legit: true, sender: sender, base: baseKey}
				if d > timeout || -d > timeout {
					c.class = "valid-signature-outside-skew"
				}
				acc, ev := mon.run(recv, c)
				if !ev {
					continue
				}
				if acc {
					mon.accepted[baseKey] = true
					r.Nontrivial(fmt.Sprintf("ok%s|%d|%d", baseKey, d, timeout))
				} else if c.class == "valid-within-skew" {
					r.Count("valid_presentations_rejected", 1)
				} else {
					r.Nontrivial(fmt.Sprintf("sk%s|%d|%d", baseKey, d, timeout))
				}
			}
			// no skew limit: far away clock
			for _, d := range []int64{0, 1 << 30, -(1 << 30)} {
				if int64(ts)+d < 0 {
					continue
				}
				c := &vC30Case{class: "valid-no-skew-limit", msg: msg, recipient: recv.node.IdForNetwork, timeout: 0, clock: int64(ts) + d, legit: true, sender: sender, base: baseKey}
				if acc, ev := mon.run(recv, c); ev && acc {
					mon.accepted[baseKey] = true
					r.Nontrivial(fmt.Sprintf("ok0%s|%d", baseKey, d))
				} else if ev {
					r.Count("valid_presentations_rejected", 1)
				}
			}
			if !mon.accepted[baseKey] {
				r.Count("base_messages_never_accepted", 1)
				continue
			}
			r.Count("base_messages_accepted", 1)

			// -- wrong recipient: the same fresh message shown to / authenticated as somebody else
			third := actors[(ri+1+rng.Intn(len(actors)-1))%len(actors)]
			flipped := recv.node.IdForNetwork
			flipped[rng.Intn(32)] ^= 1 << uint(rng.Intn(8))
			for i, y := range []crypto.Hash{third.node.IdForNetwork, sender.node.IdForNetwork, flipped, {}, vC30RandHash(rng)} {
				if y == recv.node.IdForNetwork {
					continue
				}
				who := recv
				if i == 0 {
					who = third
				}
				c := &vC30Case{class: "wrong-recipient", msg: msg, recipient: y, timeout: timeout, clock: int64(ts), legit: true, sender: sender, base: baseKey}
				if acc, ev := mon.run(who, c); ev && !acc {
					r.Nontrivial(fmt.Sprintf("wr%s|%d", baseKey, i))
				}
				// and on the path without a clock-skew limit (how relayers check the tokens of remote consumers)
				c0 := &vC30Case{class: "wrong-recipient-no-skew-limit", msg: msg, recipient: y, timeout: 0, clock: -1, legit: true, sender: sender, base: baseKey}
				if acc, ev := mon.run(who, c0); ev && !acc {
					r.Nontrivial(fmt.Sprintf("wr0%s|%d", baseKey, i))
				}
			}

			// -- the receiver's own message
			if k%3 == 0 {
				self := mon.build(recv, recv.node.IdForNetwork, tb)
				if self != nil {
					c := &vC30Case{class: "self-message", msg: self, recipient: recv.node.IdForNetwork, timeout: timeout, clock: tb, legit: true, sender: recv, base: baseKey}
					if acc, ev := mon.run(recv, c); ev && !acc {
						r.Nontrivial("self" + string(self[73:85]))
					}
					// the same message evaluated by another node on behalf of the receiver's identity (how a relayer
					// checks consumer tokens): "the receiver" is the identity being authenticated as
					ca := &vC30Case{class: "self-message-authenticated-by-another-node", msg: self, recipient: recv.node.IdForNetwork, timeout: timeout, clock: tb, legit: true, sender: recv, base: baseKey}
					if acc, ev := mon.run(third, ca); ev && !acc {
						r.Nontrivial("selfas" + string(self[73:85]))
					}
					// same key running on another network, addressed to the receiver
					twin := vC30ActorFromKey(recv.priv, otherNet, !recv.node.isRelayer, "twin")
					tm := mon.build(twin, recv.node.IdForNetwork, tb)
					if tm != nil {
						c := &vC30Case{class: "self-key-other-network", msg: tm, recipient: recv.node.IdForNetwork, timeout: timeout, clock: tb, legit: true, sender: twin, base: baseKey}
						if acc, ev := mon.run(recv, c); ev && !acc {
							r.Nontrivial("twin" + string(tm[73:85]))
						}
					}
				}
			}

			// -- harness-signed messages with arbitrary fields (correctly signed by the named key)
			if k%2 == 0 {
				for i, fts := range []uint64{ts + uint64(timeout) + 1, ts - uint64(timeout) - 1, ts + uint64(timeout), 0, 1 << 53, 1<<53 + 1, 1 << 63, ^uint64(0), ^uint64(0) - uint64(tb)} {
					fm := vC30Forge(fts, recv.node.IdForNetwork, sender.node.Signer.PublicSpendKey, byte(rng.Intn(3)), &sender.priv)
					mon.markSigned(fm)
					c := &vC30Case{class: "signed-arbitrary-timestamp", msg: fm, recipient: recv.node.IdForNetwork, timeout: timeout, clock: int64(ts), legit: true, base: baseKey}
					acc, ev := mon.run(recv, c)
					if ev {
						r.Nontrivial(fmt.Sprintf("ft%s|%d|%v", baseKey, i, acc))
					}
				}
				// wrong signer: body names the sender, another node signs (with and without freshness limit)
				liar := actors[(si+1+rng.Intn(len(actors)-1))%len(actors)]
				for i, signer := range []*crypto.Key{&liar.priv, &recv.priv} {
					fm := vC30Forge(ts, recv.node.IdForNetwork, sender.node.Signer.PublicSpendKey, msg[72], signer)
					c := &vC30Case{class: "wrong-signer", msg: fm, recipient: recv.node.IdForNetwork, timeout: timeout, clock: int64(ts), legit: false, base: baseKey}
					if acc, ev := mon.run(recv, c); ev && !acc {
						r.Nontrivial(fmt.Sprintf("ws%s|%d", baseKey, i))
					}
				}
				// signed by the named key, but over something else than the 73-byte body
				short := vC30Forge(ts, recv.node.IdForNetwork, sender.node.Signer.PublicSpendKey, msg[72], &sender.priv)
				sig := sender.priv.Sign(crypto.Blake3Hash(short[:72]))
				copy(short[73:], sig[:])
				if !bytes.Equal(short, msg) {
					c := &vC30Case{class: "signature-over-body-without-role", msg: short, recipient: recv.node.IdForNetwork, timeout: timeout, clock: int64(ts), legit: false, base: baseKey}
					if acc, ev := mon.run(recv, c); ev && !acc {
						r.Nontrivial("sb" + baseKey)
					}
				}
			}

			if len(jobs) < (w+1)*nMutBases/nWorlds {
				jobs = append(jobs, mutJob{recv: recv, sender: sender, base: msg, seed: rng.Int63()})
			}
			if len(clockJobs) < nClockMut {
				clockJobs = append(clockJobs, mutJob{recv: recv, sender: sender, base: msg, seed: rng.Int63()})
			}
		}
		// splice partners: a few other signed messages of the same world
		for i := range jobs {
			if jobs[i].others == nil && len(pool) > 0 {
				for n := 0; n < 3; n++ {
					jobs[i].others = append(jobs[i].others, pool[rng.Intn(len(pool))])
				}
			}
		}
		// more mutation bases than sweep bases: cheap extra messages of this world
		for len(jobs) < (w+1)*nMutBases/nWorlds {
			si := rng.Intn(len(actors))
			ri := (si + 1 + rng.Intn(len(actors)-1)) % len(actors)
			tb := 1_700_000_000 + rng.Int63n(400_000_000)
			msg := mon.build(actors[si], actors[ri].node.IdForNetwork, tb)
			if msg == nil || len(msg) != 137 {
				break
			}
			c := &vC30Case{class: "valid-no-skew-limit", msg: msg, recipient: actors[ri].node.IdForNetwork, timeout: 0, clock: -1, legit: true, sender: actors[si]}
			acc, _ := mon.run(actors[ri], c)
			if !acc {
				r.Count("base_messages_never_accepted", 1)
				continue
			}
			r.Count("base_messages_accepted", 1)
			mon.accepted[string(msg[73:85])] = true
			pool = append(pool, msg)
			j := mutJob{recv: actors[ri], sender: actors[si], base: msg, seed: rng.Int63()}
			for n := 0; n < 3; n++ {
				j.others = append(j.others, pool[rng.Intn(len(pool))])
			}
			jobs = append(jobs, j)
		}
	}

	// ---- timestamp mutants with the clock moved onto the mutant's timestamp (sequential)
	for _, j := range clockJobs {
		baseKey := string(j.base[73:85])
		for bit := 0; bit < 64; bit++ {
			mm := bytes.Clone(j.base)
			mm[bit/8] ^= 1 << uint(bit%8)
			nts := binary.BigEndian.Uint64(mm[:8])
			if nts >= 1<<33 {
				continue // the mock clock cannot follow; covered without skew limit below
			}
			c := &vC30Case{class: "bitflip-timestamp-clock-follows", msg: mm, recipient: j.recv.node.IdForNetwork, timeout: 10, clock: int64(nts), legit: false, base: baseKey}
			if acc, ev := mon.run(j.recv, c); ev && !acc {
				r.Nontrivial(fmt.Sprintf("ct%s|%d", baseKey, bit))
			}
		}
	}
	clock.Reset()

	// ---- mutation enumeration (parallel; no call depends on the clock: timeout 0)
	workers := 8
	var wg sync.WaitGroup
	ch := make(chan mutJob)
	for w := 0; w < workers; w++ {
		wg.Add(1)
		go func() {
			defer wg.Done()
			for j := range ch {
				jr := rand.New(rand.NewSource(j.seed))
				baseKey := string(j.base[73:85])
				vC30Mutants(jr, j.base, nsub, j.others, func(class string, id uint32, mm []byte) {
					if mon.isSigned(mm) {
						r.Count("mutants_equal_to_a_signed_message_skipped", 1)
						return
					}
					// attacker-favourable presentation: authenticate as the recipient the mutant names
					rec := j.recv.node.IdForNetwork
					if len(mm) >= 40 {
						copy(rec[:], mm[8:40])
					}
					c := &vC30Case{class: class, msg: mm, recipient: rec, timeout: 0, clock: -1, legit: false, base: baseKey}
					if acc, ev := mon.run(j.recv, c); ev && !acc {
						r.Nontrivial(fmt.Sprintf("m%s%08x", baseKey, id))
					}
					// and as the original receiver (the mutant arrives where the original was sent)
					if rec != j.recv.node.IdForNetwork {
						c2 := &vC30Case{class: class + "-at-original-receiver", msg: mm, recipient: j.recv.node.IdForNetwork, timeout: 0, clock: -1, legit: false, base: baseKey}
						mon.run(j.recv, c2)
					}
				})
				r.Count("bases_fully_mutated", 1)
			}
		}()
	}
	for _, j := range jobs {
		ch <- j
	}
	close(ch)
	wg.Wait()

	if len(mon.accepted) == 0 {
		r.Inconclusive("no authentication message was ever accepted, so the 'accepted only if' clauses were never exercised from an accepting receiver")
	}
	r.Count("distinct_base_messages_accepted", len(mon.accepted))
	// the real handshake: the accepting side of a peer connection (p2p authenticateNeighbor, as the relayer's accept
	// loop runs it) is given authentication messages built 0 s .. 3 h before or after the receiver's clock; what
	// it lets in must be within the handshake's clock-skew window
	{
		window := p2p.VerifHandshakeWindowSeconds()
		hnet := vC30RandHash(rng)
		recv, sender := vC30NewActor(rng, hnet, true, "handshake-receiver"), vC30NewActor(rng, hnet, false, "handshake-sender")
		peer := p2p.NewPeer(recv.node, recv.node.IdForNetwork, "127.0.0.1:0", true)
		base := int64(1_700_100_000)
		for _, delta := range []int64{0, 1, window - 1, window, window + 1, window + 2, 60, 600, 3600, 9999, 10001, -1, -window, -window - 1, -60, -3600, -10001} {
			msg := mon.build(sender, recv.node.IdForNetwork, base-delta)
			if msg == nil {
				continue
			}
			ok := false
			for attempt := 0; attempt < 6 && !ok; attempt++ {
				vC30SetClock(base)
				before := clock.Now().Unix()
				id, _, err := p2p.VerifHandshake(peer, msg)
				after := clock.Now().Unix()
				if before != base || after != base {
					continue
				}
				ok = true
				r.Eval()
				r.Count("handshakes_presented", 1)
				r.Nontrivial(fmt.Sprintf("handshake|%d|%v", delta, err == nil))
				abs := delta
				if abs < 0 {
					abs = -abs
				}
				if err == nil && abs > window {
					r.Violation("C30|p2p.handshake|accepted-outside-clock-skew", fmt.Sprintf("the handshake let in an authentication message stamped %d s away from the receiver's clock (window %d s)", delta, window),
						map[string]any{"delta_s": delta, "window_s": window, "message": hex.EncodeToString(msg)})
				}
				if err == nil && id != sender.node.IdForNetwork {
					r.Violation("C30|p2p.handshake|peer-id-not-the-sender", "the handshake authenticated another peer id than the sender's", nil)
				}
				if err != nil && abs <= window-1 {
					r.Count("handshakes_inside_the_window_refused", 1)
				}
			}
		}
	}
	r.Finish()
}
