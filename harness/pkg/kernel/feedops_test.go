package kernel

// Consensus-class operations for W-feed, built the way the elected node builds them.

import (
	"bytes"
	"fmt"
	"math/big"
	"os"
	"os/exec"
	"sort"
	"testing"
	"time"

	"github.com/MixinNetwork/mixin/common"
	"github.com/MixinNetwork/mixin/crypto"
	"github.com/MixinNetwork/mixin/kernel/internal/clock"
	"github.com/MixinNetwork/mixin/verifgen"
	"github.com/MixinNetwork/mixin/verifkit"
)

// atHour moves the timeline cursor forward to the given hour (relative to the
// epoch) of the current or next day, plus a random offset below maxOffset.
func (f *verifFeed) atHour(hour int, maxOffset time.Duration) uint64 {
	since := f.cursor - f.net.Epoch
	day := since / OneDay
	target := f.net.Epoch + day*OneDay + uint64(hour)*uint64(time.Hour)
	if target <= f.cursor {
		target += OneDay
	}
	f.cursor = target + uint64(f.rng.Int63n(int64(maxOffset)))
	return f.cursor
}

// buildNodeRemove builds the node-removal transaction the elected node would
// propose at ts and returns the chain that has to propose it.
func (f *verifFeed) buildNodeRemove(ts uint64) (crypto.Hash, *common.VersionedTransaction, error) {
	eid := f.node.electSnapshotNode(common.TransactionTypeNodeRemove, ts)
	tx, err := f.node.buildNodeRemoveTransaction(eid, ts, nil)
	return eid, tx, err
}

// buildCustodianUpdate builds a fully signed custodian update for the currently
// accepted nodes under a new custodian account, paid with an exact XIN output
// that is deposited and finalized first (ordinary snapshot on chain payChain).
func (f *verifFeed) buildCustodianUpdate(w *verifgen.Wallet, ts uint64, newCustodian *common.Address, payChain crypto.Hash) (crypto.Hash, *common.VersionedTransaction, error) {
	eid := f.node.electSnapshotNode(common.TransactionTypeCustodianUpdateNodes, ts)
	prev, err := f.node.persistStore.ReadCustodian(ts)
	if err != nil || prev == nil {
		return eid, nil, fmt.Errorf("no custodian at %d: %v", ts, err)
	}
	accepted := f.node.NodesListWithoutState(ts, true)
	type entry struct {
		key   crypto.Key
		extra []byte
	}
	var entries []entry
	for _, cn := range accepted {
		idx := -1
		for i, id := range f.net.NodeIds {
			if id == cn.IdForNetwork {
				idx = i
			}
		}
		if idx < 0 {
			return eid, nil, fmt.Errorf("accepted node %s is not a harness node", cn.IdForNetwork)
		}
		cust := verifgen.Addr(fmt.Sprintf("%s:nodecustodian2:%d:%d", f.net.Label, idx, ts))
		extra := common.EncodeCustodianNode(&cust, &f.net.Payees[idx], &f.net.Signers[idx].PrivateSpendKey,
			&f.net.Payees[idx].PrivateSpendKey, &cust.PrivateSpendKey, f.net.NetworkId)
		entries = append(entries, entry{cust.PublicSpendKey, extra})
	}
	sort.Slice(entries, func(i, j int) bool { return bytes.Compare(entries[i].key[:], entries[j].key[:]) < 0 })
	extra := append([]byte{}, newCustodian.PublicSpendKey[:]...)
	extra = append(extra, newCustodian.PublicViewKey[:]...)
	for _, e := range entries {
		extra = append(extra, e.extra...)
	}
	// approval by the current custodian: the harness owns the genesis custodian key
	// and every later custodian it installed itself
	approver := f.custodianKey(prev.Custodian)
	if approver == nil {
		return eid, nil, fmt.Errorf("harness does not own the current custodian key")
	}
	sig := approver.Sign(crypto.Blake3Hash(extra))
	extra = append(extra, sig[:]...)

	price := new(big.Int).Mul(big.NewInt(100_0000_0000), big.NewInt(int64(len(entries)))) // 100 XIN per new entry
	xin := verifgen.Assets()[0]
	owner := w.Addrs[0]
	spec := verifgen.OutSpec{Type: common.OutputTypeScript, Owners: []common.Address{owner}, Threshold: 1, Amount: verifgen.Units(price), Seed: w.Seed()}
	dep := verifgen.Deposit(w.Custodian, xin.Id, xin.Chain, xin.Key, fmt.Sprintf("0xcustodian-pay-%d", ts), 0, verifgen.Units(price), spec)
	if _, d := f.feedBatch(payChain, []*common.VersionedTransaction{dep}, f.tick(uint64(time.Second))); !d.Finalized {
		return eid, nil, fmt.Errorf("funding deposit not finalized: %v %v", d.Err, d.PanicVal)
	}
	in := verifgen.OutsOf(dep, []verifgen.OutSpec{spec})[0]
	last, _ := f.node.ReadLastConsensusSnapshotWithHack()
	out := verifgen.OutSpec{Type: common.OutputTypeCustodianUpdateNodes, Owners: []common.Address{owner}, Threshold: 64, Amount: verifgen.Units(price), Seed: w.Seed()}
	raw := verifgen.BuildTx(xin.Id, []*verifgen.Out{in}, []verifgen.OutSpec{out}, extra, last.Transactions)
	tx := verifgen.SignMap(raw, []*verifgen.Out{in}, [][]int{{0}})
	f.custodians = append(f.custodians, *newCustodian)
	return eid, tx, nil
}

// custodianKey returns the private spend key of a custodian account the harness created.
func (f *verifFeed) custodianKey(a *common.Address) *crypto.Key {
	if a.PublicSpendKey == f.net.Custodian.PublicSpendKey {
		k := f.net.Custodian.PrivateSpendKey
		return &k
	}
	for _, c := range f.custodians {
		if c.PublicSpendKey == a.PublicSpendKey {
			k := c.PrivateSpendKey
			return &k
		}
	}
	return nil
}

// copyDir clones a closed Badger directory.
func verifCopyDir(src, dst string) error {
	if err := os.RemoveAll(dst); err != nil {
		return err
	}
	out, err := exec.Command("cp", "-r", src, dst).CombinedOutput()
	if err != nil {
		return fmt.Errorf("cp: %v %s", err, out)
	}
	return nil
}

// aggregateWorks does what the per-chain AggregateMintWork / AggregateRoundSpace loops do
// (they are off under the aggregator mock): for every chain write the work of its closed
// rounds in order, crediting a round when the next round starts on the same day, and move
// the space checkpoint to the given batch.
func (f *verifFeed) aggregateWorks(batch uint64) error {
	store := f.node.persistStore
	for _, cn := range f.node.NodesListWithoutState(f.cursor, true) {
		id := cn.IdForNetwork
		chain := f.chain(id)
		if chain == nil || chain.State == nil {
			continue
		}
		off, err := store.ReadWorkOffset(id)
		if err != nil {
			return err
		}
		for round := off; round < chain.State.CacheRound.Number; round++ {
			works, err := store.ReadSnapshotWorksForNodeRound(id, round)
			if err != nil || len(works) == 0 {
				return fmt.Errorf("no works for %s round %d: %v", id, round, err)
			}
			next, err := store.ReadSnapshotWorksForNodeRound(id, round+1)
			if err != nil {
				return err
			}
			if len(next) == 0 {
				break // the following round has no snapshot yet: not mature
			}
			credit := works[0].Timestamp/OneDay == next[0].Timestamp/OneDay
			for _, wk := range works {
				own := false
				for _, si := range wk.Signers {
					own = own || si == id
				}
				if !own && len(wk.Signers) > 0 {
					return fmt.Errorf("harness: snapshot %s of chain %s round %d not signed by its own node (signers %d)", wk.Hash, id, round, len(wk.Signers))
				}
			}
			if err := store.WriteRoundWork(id, round, works, credit); err != nil {
				return err
			}
		}
		ob, or, err := store.ReadRoundSpaceCheckpoint(id)
		if err != nil {
			return err
		}
		if ob <= batch {
			if err := store.WriteRoundSpaceAndState(&common.RoundSpace{NodeId: id, Batch: batch, Round: or}); err != nil {
				return err
			}
		}
	}
	return nil
}

// workDay lets every accepted chain finalize three snapshots in three consecutive rounds
// during the early hours of the current timeline day (so that two rounds per chain get credited).
func (f *verifFeed) workDay(w *verifgen.Wallet) error {
	since := f.cursor - f.net.Epoch
	target := f.net.Epoch + since/OneDay*OneDay + uint64(time.Hour) + uint64(f.rng.Intn(60))*uint64(time.Second)
	if target <= f.cursor {
		target += OneDay
	}
	f.cursor = target
	assets := verifgen.Assets()
	for k := 0; k < 3; k++ {
		for _, cn := range f.node.NodesListWithoutState(f.cursor, true) {
			if !f.node.ConsensusReady(cn, f.cursor) {
				continue // a freshly accepted node is not a signer yet, so it cannot lead a snapshot
			}
			dep, specs := w.Deposit(assets[1+f.rng.Intn(3)], big.NewInt(int64(1+f.rng.Intn(1e6))))
			ts := f.tick(uint64(100 * time.Millisecond))
			_, d := f.feedBatch(cn.IdForNetwork, []*common.VersionedTransaction{dep}, ts)
			if !d.Finalized {
				_, d = f.feedBatch(cn.IdForNetwork, []*common.VersionedTransaction{dep}, f.tick(uint64(100*time.Millisecond)))
			}
			if !d.Finalized {
				return fmt.Errorf("work snapshot on %s not finalized: %v %v", cn.IdForNetwork, d.Err, d.PanicVal)
			}
			w.Applied(dep, specs)
		}
		f.cursor += uint64(5 * time.Second) // the next pass opens a new round on every chain
	}
	return nil
}

// buildMint prepares two work days (yesterday and today), aggregates them and builds the
// universal mint transaction the elected node would propose in today's mint window.
func (f *verifFeed) buildMint(w *verifgen.Wallet) (crypto.Hash, *common.VersionedTransaction, uint64, error) {
	var none crypto.Hash
	if err := f.workDay(w); err != nil {
		return none, nil, 0, err
	}
	f.cursor = f.net.Epoch + ((f.cursor-f.net.Epoch)/OneDay+1)*OneDay
	if err := f.workDay(w); err != nil {
		return none, nil, 0, err
	}
	batch := (f.cursor - f.net.Epoch) / OneDay
	if err := f.aggregateWorks(batch); err != nil {
		return none, nil, 0, err
	}
	ts := f.atHour(7+f.rng.Intn(3), 50*time.Minute)
	if (ts-f.net.Epoch)/OneDay != batch {
		return none, nil, 0, fmt.Errorf("mint window fell on another day")
	}
	eid := f.node.electSnapshotNode(common.TransactionTypeMint, ts)
	cur, err := f.node.persistStore.ReadCustodian(ts)
	if err != nil || cur == nil {
		return none, nil, 0, fmt.Errorf("no custodian: %v", err)
	}
	tx := f.node.buildUniversalMintTransaction(cur, ts, false)
	if tx == nil {
		return none, nil, 0, fmt.Errorf("the node does not offer a mint at batch %d", batch)
	}
	sig := f.keyOf(eid).Sign(tx.PayloadHash())
	tx.SignaturesMap = []map[uint16]*crypto.Signature{{0: &sig}}
	return eid, tx, ts, nil
}

// buildPledge funds and builds a node pledge for a fresh candidate, to be proposed by the
// elected chain at a pledge hour at least 12 h after the latest membership record.
func (f *verifFeed) buildPledge(w *verifgen.Wallet) (crypto.Hash, *common.VersionedTransaction, uint64, *verifgen.Candidate, error) {
	var none crypto.Hash
	xin := verifgen.Assets()[0]
	f.pledges++
	cand := verifgen.NewCandidate(fmt.Sprintf("%s:cand:%d", f.net.Label, f.pledges))
	spec := verifgen.OutSpec{Type: common.OutputTypeScript, Owners: []common.Address{cand.Funder}, Threshold: 1, Amount: common.KernelNodePledgeAmount, Seed: w.Seed()}
	dep := verifgen.Deposit(w.Custodian, xin.Id, xin.Chain, xin.Key, fmt.Sprintf("0xpledge-%s-%d", f.net.Label, f.pledges), 0, common.KernelNodePledgeAmount, spec)
	if _, d := f.feedBatch(f.net.NodeIds[1+f.rng.Intn(len(f.net.NodeIds)-1)], []*common.VersionedTransaction{dep}, f.tick(uint64(time.Second))); !d.Finalized {
		return none, nil, 0, nil, fmt.Errorf("pledge funding not finalized: %v %v", d.Err, d.PanicVal)
	}
	funding := verifgen.OutsOf(dep, []verifgen.OutSpec{spec})[0]
	// a pledge hour (outside 7..9 and 13..19) at least 12 h after every membership record
	var latest uint64
	for _, cn := range f.node.NodesListWithoutState(f.cursor+uint64(48*time.Hour), false) {
		if cn.Timestamp > latest {
			latest = cn.Timestamp
		}
	}
	if f.cursor < latest+uint64(12*time.Hour) {
		f.cursor = latest + uint64(12*time.Hour)
	}
	ts := f.atHour([]int{21, 22, 23, 1, 2, 3, 4}[f.rng.Intn(7)], 50*time.Minute)
	eid := f.node.electSnapshotNode(common.TransactionTypeNodePledge, ts)
	last, _ := f.node.ReadLastConsensusSnapshotWithHack()
	refs := append([]crypto.Hash{}, last.Transactions...)
	if f.pledgeTwoRefs || f.rng.Intn(2) == 0 {
		refs = append(refs, funding.Hash) // a second reference (any finalized transaction) is legal after the consensus one
	}
	tx := verifgen.Pledge(cand, funding, refs)
	return eid, tx, ts, cand, nil
}

// buildAccept builds the acceptance of the pledging candidate: round zero of its own chain,
// 12 h..7 d after the pledge, inside the operation window, signed by the new node itself.
func (f *verifFeed) buildAccept(cand *verifgen.Candidate) (*common.Snapshot, *common.VersionedTransaction, error) {
	id := cand.Signer.Hash().ForNetwork(f.net.NetworkId)
	pn := f.node.PledgingNode(f.cursor + uint64(24*time.Hour))
	if pn == nil || pn.IdForNetwork != id {
		return nil, nil, fmt.Errorf("candidate is not the pledging node")
	}
	if f.cursor < pn.Timestamp+uint64(12*time.Hour) {
		f.cursor = pn.Timestamp + uint64(12*time.Hour)
	}
	ts := f.atHour(13+f.rng.Intn(6), 50*time.Minute)
	chain := f.node.getOrCreateChain(id)
	if chain == nil {
		return nil, nil, fmt.Errorf("no chain for the pledging node")
	}
	tx, err := chain.buildNodeAcceptTransaction(ts, true)
	if err != nil {
		return nil, nil, err
	}
	sig := cand.Signer.PrivateSpendKey.Sign(tx.PayloadHash())
	tx.SignaturesMap = []map[uint16]*crypto.Signature{{0: &sig}}
	if f.extraKeys == nil {
		f.extraKeys = map[crypto.Hash]crypto.Key{}
	}
	f.extraKeys[id] = cand.Signer.PrivateSpendKey
	s := &common.Snapshot{Version: common.SnapshotVersionCommonEncoding, NodeId: id, RoundNumber: 0, Timestamp: ts, Transactions: []crypto.Hash{tx.PayloadHash()}}
	s.Hash = s.PayloadHash()
	return s, tx, nil
}

// verifAheadOfClock: a membership record whose snapshot is stamped a little ahead of this node's clock (the proposer's
// clock runs ahead) is part of the history as soon as it is finalized: the views the running node gives for instants
// after it must be the ones a node set up later from the same records gives.
func verifAheadOfClock(t *testing.T, r *verifkit.Run, label, sig string, viewOf func(f *verifFeed, q uint64) string) {
	rng := r.Fork(label+"-clock", 0)
	f := verifNewFeed(t, fmt.Sprintf("%s-%d", label, r.Seed), 9, rng, t.TempDir(), nil)
	defer f.stop()
	defer clock.Reset()
	w := verifgen.NewWallet(f.net.Label, rng, &f.net.Custodian, 3)
	view := func(q uint64) string { return viewOf(f, q) }
	rounds := r.N(2, 6)
	for i := 0; i < rounds; i++ {
		for k := 0; k < 3; k++ {
			dep, specs := w.Deposit(verifgen.Assets()[1+rng.Intn(3)], big.NewInt(int64(1+rng.Intn(1e6))))
			if _, d := f.feedBatch(f.net.NodeIds[rng.Intn(len(f.net.NodeIds))], []*common.VersionedTransaction{dep}, f.tick(uint64(2*time.Second))); d.Finalized {
				w.Applied(dep, specs)
			}
		}
		ts := f.atHour(13+rng.Intn(6), 50*time.Minute)
		chainId, tx, err := f.buildNodeRemove(ts)
		if err != nil {
			r.Count("clock_part_removal_not_buildable", 1)
			t.Logf("removal: %v", err)
			break
		}
		s, err := f.nextSnapshot(chainId, []crypto.Hash{tx.PayloadHash()}, ts)
		if err != nil {
			break
		}
		if _, err := f.sign(s, 0); err != nil {
			break
		}
		// this node's clock is 1..5 s behind the snapshot's timestamp when the snapshot arrives
		behind := time.Duration(1+rng.Intn(5)) * time.Second
		clock.Reset()
		clock.MockDiff(time.Unix(0, int64(ts)).Add(-behind).Sub(clock.Now()))
		d := f.deliver(s, []*common.VersionedTransaction{tx})
		if !d.Finalized {
			d = f.deliver(s, []*common.VersionedTransaction{tx})
		}
		if !d.Finalized {
			r.Count("clock_part_removal_not_finalized", 1)
			t.Logf("removal not finalized: %v %v", d.Err, d.PanicVal)
			clock.Reset()
			continue
		}
		qs := []uint64{ts - 1, ts, ts + 1, ts + uint64(time.Second), ts + uint64(time.Hour), ts + uint64(13*time.Hour)}
		before := map[uint64]string{}
		for _, q := range qs {
			before[q] = view(q)
		}
		// the same records read by a node set up afterwards, with the clock long past the record
		clock.Reset()
		if err := f.restart(); err != nil {
			t.Fatalf("restart: %v", err)
		}
		for _, q := range qs {
			r.Eval()
			r.Nontrivial(fmt.Sprintf("ahead|%d|%d", i, q-ts+1))
			if a := view(q); a != before[q] {
				r.Violation(sig, fmt.Sprintf("the running node's views for %d (record at %d, local clock %s behind when it was finalized) differ from the views of a node set up later from the same records", q, ts, behind),
					map[string]any{"query": q, "record_time": ts, "clock_behind": behind.String(), "running_node": before[q], "node_set_up_later": a})
				break
			}
		}
		r.Count("records_finalized_ahead_of_the_local_clock", 1)
	}
	if r.Counter("records_finalized_ahead_of_the_local_clock") < 1 {
		r.Inconclusive("no membership record could be finalized ahead of the local clock")
	}
}
