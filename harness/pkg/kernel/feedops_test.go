package kernel

// Consensus-class operations for W-feed, built the way the elected node builds them.

import (
	"bytes"
	"fmt"
	"math/big"
	"os"
	"os/exec"
	"sort"
	"time"

	"github.com/MixinNetwork/mixin/common"
	"github.com/MixinNetwork/mixin/crypto"
	"github.com/MixinNetwork/mixin/verifgen"
)

// atHour moves the timeline cursor forward to the given hour (relative to the
// epoch) of the current or next day, plus a random offset below maxOffset.
func (f *verifFeed) atHour(hour int, maxOffset time.Duration) uint64 {
	since := f.cursor - f.net.Epoch
	day := since / OneDay
	target := f.net.Epoch + day*OneDay + uint64(hour)*uint64(time.Hour)
	if target <= f.cursor {
		target += OneDay
	}
	f.cursor = target + uint64(f.rng.Int63n(int64(maxOffset)))
	return f.cursor
}

// buildNodeRemove builds the node-removal transaction the elected node would
// propose at ts and returns the chain that has to propose it.
func (f *verifFeed) buildNodeRemove(ts uint64) (crypto.Hash, *common.VersionedTransaction, error) {
	eid := f.node.electSnapshotNode(common.TransactionTypeNodeRemove, ts)
	tx, err := f.node.buildNodeRemoveTransaction(eid, ts, nil)
	return eid, tx, err
}

// buildCustodianUpdate builds a fully signed custodian update for the currently
// accepted nodes under a new custodian account, paid with an exact XIN output
// that is deposited and finalized first (ordinary snapshot on chain payChain).
func (f *verifFeed) buildCustodianUpdate(w *verifgen.Wallet, ts uint64, newCustodian *common.Address, payChain crypto.Hash) (crypto.Hash, *common.VersionedTransaction, error) {
	eid := f.node.electSnapshotNode(common.TransactionTypeCustodianUpdateNodes, ts)
	prev, err := f.node.persistStore.ReadCustodian(ts)
	if err != nil || prev == nil {
		return eid, nil, fmt.Errorf("no custodian at %d: %v", ts, err)
	}
	accepted := f.node.NodesListWithoutState(ts, true)
	type entry struct {
		key   crypto.Key
		extra []byte
	}
	var entries []entry
	for _, cn := range accepted {
		idx := -1
		for i, id := range f.net.NodeIds {
			if id == cn.IdForNetwork {
				idx = i
			}
		}
		if idx < 0 {
			return eid, nil, fmt.Errorf("accepted node %s is not a harness node", cn.IdForNetwork)
		}
		cust := verifgen.Addr(fmt.Sprintf("%s:nodecustodian2:%d:%d", f.net.Label, idx, ts))
		extra := common.EncodeCustodianNode(&cust, &f.net.Payees[idx], &f.net.Signers[idx].PrivateSpendKey,
			&f.net.Payees[idx].PrivateSpendKey, &cust.PrivateSpendKey, f.net.NetworkId)
		entries = append(entries, entry{cust.PublicSpendKey, extra})
	}
	sort.Slice(entries, func(i, j int) bool { return bytes.Compare(entries[i].key[:], entries[j].key[:]) < 0 })
	extra := append([]byte{}, newCustodian.PublicSpendKey[:]...)
	extra = append(extra, newCustodian.PublicViewKey[:]...)
	for _, e := range entries {
		extra = append(extra, e.extra...)
	}
	// approval by the current custodian: the harness owns the genesis custodian key
	// and every later custodian it installed itself
	approver := f.custodianKey(prev.Custodian)
	if approver == nil {
		return eid, nil, fmt.Errorf("harness does not own the current custodian key")
	}
	sig := approver.Sign(crypto.Blake3Hash(extra))
	extra = append(extra, sig[:]...)

	price := new(big.Int).Mul(big.NewInt(100_0000_0000), big.NewInt(int64(len(entries)))) // 100 XIN per new entry
	xin := verifgen.Assets()[0]
	owner := w.Addrs[0]
	spec := verifgen.OutSpec{Type: common.OutputTypeScript, Owners: []common.Address{owner}, Threshold: 1, Amount: verifgen.Units(price), Seed: w.Seed()}
	dep := verifgen.Deposit(w.Custodian, xin.Id, xin.Chain, xin.Key, fmt.Sprintf("0xcustodian-pay-%d", ts), 0, verifgen.Units(price), spec)
	if _, d := f.feedBatch(payChain, []*common.VersionedTransaction{dep}, f.tick(uint64(time.Second))); !d.Finalized {
		return eid, nil, fmt.Errorf("funding deposit not finalized: %v %v", d.Err, d.PanicVal)
	}
	in := verifgen.OutsOf(dep, []verifgen.OutSpec{spec})[0]
	last, _ := f.node.ReadLastConsensusSnapshotWithHack()
	out := verifgen.OutSpec{Type: common.OutputTypeCustodianUpdateNodes, Owners: []common.Address{owner}, Threshold: 64, Amount: verifgen.Units(price), Seed: w.Seed()}
	raw := verifgen.BuildTx(xin.Id, []*verifgen.Out{in}, []verifgen.OutSpec{out}, extra, last.Transactions)
	tx := verifgen.SignMap(raw, []*verifgen.Out{in}, [][]int{{0}})
	f.custodians = append(f.custodians, *newCustodian)
	return eid, tx, nil
}

// custodianKey returns the private spend key of a custodian account the harness created.
func (f *verifFeed) custodianKey(a *common.Address) *crypto.Key {
	if a.PublicSpendKey == f.net.Custodian.PublicSpendKey {
		k := f.net.Custodian.PrivateSpendKey
		return &k
	}
	for _, c := range f.custodians {
		if c.PublicSpendKey == a.PublicSpendKey {
			k := c.PrivateSpendKey
			return &k
		}
	}
	return nil
}

// copyDir clones a closed Badger directory.
func verifCopyDir(src, dst string) error {
	if err := os.RemoveAll(dst); err != nil {
		return err
	}
	out, err := exec.Command("cp", "-r", src, dst).CombinedOutput()
	if err != nil {
		return fmt.Errorf("cp: %v %s", err, out)
	}
	return nil
}
