package kernel

import (
	"crypto/sha256"
	"fmt"
	"math/big"
	"sort"
	"testing"
	"time"

	"github.com/MixinNetwork/mixin/common"
	"github.com/MixinNetwork/mixin/config"
	"github.com/MixinNetwork/mixin/crypto"
	"github.com/MixinNetwork/mixin/storage"
	"github.com/MixinNetwork/mixin/verifgen"
	"github.com/MixinNetwork/mixin/verifkit"
)

type vC20State struct {
	cacheNumber uint64
	refs        common.RoundLink
	cacheSnaps  []crypto.Hash
	finalHash   crypto.Hash
	finalNumber uint64
	links       map[crypto.Hash]uint64
	history     string
	digest      string
}

func vC20Capture(f *verifFeed, chainId crypto.Hash) *vC20State {
	chain := f.chain(chainId)
	st := &vC20State{links: map[crypto.Hash]uint64{}}
	cache, final := chain.State.CacheRound, chain.State.FinalRound
	st.cacheNumber, st.refs = cache.Number, *cache.References
	for _, s := range cache.Snapshots {
		st.cacheSnaps = append(st.cacheSnaps, s.Hash)
	}
	st.finalHash, st.finalNumber = final.Hash, final.Number
	for k, v := range chain.State.RoundLinks {
		st.links[k] = v
	}
	for _, fr := range chain.State.RoundHistory {
		st.history += fmt.Sprintf("%d:%s;", fr.Number, fr.Hash)
	}
	dump := f.badger.VerifDump("ROUND", "LINK")
	keys := make([]string, 0, len(dump))
	for k := range dump {
		keys = append(keys, k)
	}
	sort.Strings(keys)
	h := sha256.New()
	for _, k := range keys {
		h.Write([]byte(k))
		h.Write(dump[k])
	}
	st.digest = fmt.Sprintf("%x", h.Sum(nil))
	return st
}

func (a *vC20State) memEqual(b *vC20State) bool {
	if a.cacheNumber != b.cacheNumber || a.refs != b.refs || a.finalHash != b.finalHash || a.finalNumber != b.finalNumber ||
		a.history != b.history || len(a.links) != len(b.links) || len(a.cacheSnaps) != len(b.cacheSnaps) {
		return false
	}
	for k, v := range a.links {
		if b.links[k] != v {
			return false
		}
	}
	return true
}

// TestVerif_C20: round links only move forward and never point at their own chain.
func TestVerif_C20(t *testing.T) {
	r := verifkit.Start(t, "C20", "exploration")
	r.SetRule("W-feed on 7 chains: ordinary histories interleaved with hostile round transitions — new rounds and empty-head reference updates whose self reference is wrong and " +
		"whose external reference is valid, stale (older than the stored link), on the own chain, or unknown — delivered both as certified snapshots through the finalization path " +
		"and directly through the strict path (startNewRoundAndPersist/updateEmptyHeadRoundAndPersist with strict checks). After an accepted transition: number = previous+1, " +
		"self = recomputed hash of the previous final round, external = stored final round of another node, ReadLink(from,to) non-decreasing over the history and equal to the " +
		"in-memory link. After a rejected one: chain state and the ROUND*/LINK* key digest are unchanged. non-trivial = distinct transition attempts by (path, variant, outcome)")
	rng := r.Rand()
	var px *verifProxy
	f := verifNewFeed(t, fmt.Sprintf("c20-%d", r.Seed), 7, rng, t.TempDir(), func(bs *storage.BadgerStore) storage.Store { px = newVerifProxy(bs); return px })
	defer f.stop()
	w := verifgen.NewWallet(f.net.Label, rng, &f.net.Custodian, 4)
	assets := verifgen.Assets()
	finals := map[crypto.Hash][]*FinalRound{} // stored final rounds per chain, oldest first
	for _, id := range f.net.NodeIds {
		finals[id] = append(finals[id], f.chain(id).State.FinalRound.Copy())
	}
	linkSeen := map[string]uint64{}
	// per chain: the hash its head round had, and how many snapshots, when a transition out of it was last refused
	type vC20Shorter struct {
		number uint64
		n      int
		hash   crypto.Hash
	}
	shorter := map[crypto.Hash]vC20Shorter{}
	attempts := r.N(260, 9000)
	accepted, rejected := 0, 0

	noteFinal := func(id crypto.Hash) {
		fr := f.chain(id).State.FinalRound
		l := finals[id]
		if l[len(l)-1].Number != fr.Number {
			finals[id] = append(l, fr.Copy())
		}
	}
	checkLinks := func(x crypto.Hash, where string) {
		chain := f.chain(x)
		for _, y := range f.net.NodeIds {
			if y == x {
				continue
			}
			link, err := f.node.persistStore.ReadLink(x, y)
			if err != nil {
				continue
			}
			key := x.String() + ">" + y.String()
			if link < linkSeen[key] {
				r.Violation("C20|link-decreased|"+where, fmt.Sprintf("stored link %s moved back from %d to %d", key[:20], linkSeen[key], link), map[string]any{"where": where})
			}
			linkSeen[key] = link
			if chain.State.RoundLinks[y] != link {
				r.Violation("C20|link-memory-differs|"+where, fmt.Sprintf("in-memory link %d differs from stored link %d", chain.State.RoundLinks[y], link), map[string]any{"where": where})
			}
		}
	}

	for i := 0; i < attempts; i++ {
		x := f.net.NodeIds[rng.Intn(len(f.net.NodeIds))]
		chain := f.chain(x)
		// keep the ledger moving: an ordinary snapshot now and then
		var tx *common.VersionedTransaction
		var specs []verifgen.OutSpec
		if len(w.Outs) < 3 || rng.Intn(2) == 0 {
			tx, specs = w.Deposit(assets[rng.Intn(len(assets))], big.NewInt(int64(1+rng.Intn(1e8))))
		} else {
			tx, specs, _ = w.Transfer(1+rng.Intn(2), 1+rng.Intn(2), true)
		}
		ts := f.tick(uint64(2500 * time.Millisecond))
		before := vC20Capture(f, x)
		cache, _ := chain.StateCopy()

		// choose the kind of transition the snapshot asks for
		variant := []string{"valid", "valid", "stale-external", "self-external", "unknown-external", "wrong-self", "valid"}[rng.Intn(7)]
		path := "finalization"
		if rng.Intn(3) == 0 {
			path = "strict"
		}
		wantNew := len(cache.Snapshots) > 0
		// a quarter of the snapshots for a head round that already holds some join that round instead of asking for the
		// next one (rounds of several snapshots; a refused transition may be followed by more snapshots of the round)
		if wantNew && rng.Intn(4) == 0 {
			start, last := cache.Snapshots[0].Timestamp, cache.Snapshots[0].Timestamp
			for _, cs := range cache.Snapshots {
				start, last = min(start, cs.Timestamp), max(last, cs.Timestamp)
			}
			sts := last + 1 + uint64(rng.Intn(2e8))
			if sts < start+config.SnapshotRoundGap {
				s := &common.Snapshot{Version: common.SnapshotVersionCommonEncoding, NodeId: x, Timestamp: sts, References: cache.References,
					RoundNumber: cache.Number, Transactions: []crypto.Hash{tx.PayloadHash()}}
				s.Hash = s.PayloadHash()
				if _, err := f.sign(s, rng.Intn(2)); err == nil {
					d := f.deliver(s, []*common.VersionedTransaction{tx})
					r.Eval()
					if d.Panicked {
						r.Violation("C20|panic|finalization|same-round-snapshot", fmt.Sprintf("a snapshot joining the head round panicked: %v", d.PanicVal), nil)
						if err := f.restart(); err != nil {
							t.Fatal(err)
						}
					} else if d.Finalized {
						w.Applied(tx, specs)
						r.Count("snapshots_finalized", 1)
						r.Count("snapshots_joining_a_head_round_that_already_holds_some", 1)
					}
				}
				continue
			}
		}
		if wantNew {
			// timestamp beyond the gap so that a new round is the only fit
			start := cache.Snapshots[0].Timestamp
			for _, cs := range cache.Snapshots {
				if cs.Timestamp < start {
					start = cs.Timestamp
				}
			}
			if ts < start+config.SnapshotRoundGap {
				ts = start + config.SnapshotRoundGap + uint64(rng.Intn(1e9))
				if ts > f.cursor {
					f.cursor = ts
				}
			}
		}
		if sh, ok := shorter[x]; ok && wantNew && sh.number == cache.Number && sh.n < len(cache.Snapshots) && rng.Intn(2) == 0 {
			variant = "self-of-the-round-before-it-grew"
		}
		var refs *common.RoundLink
		if wantNew {
			_, _, self := verifRoundHashOf(x, cache.Number, cache.Snapshots)
			refs = &common.RoundLink{Self: self}
		} else {
			refs = &common.RoundLink{Self: cache.References.Self}
		}
		// external reference by variant
		others := make([]crypto.Hash, 0, 6)
		for _, id := range f.net.NodeIds {
			if id != x {
				others = append(others, id)
			}
		}
		y := others[rng.Intn(len(others))]
		switch variant {
		case "valid", "wrong-self":
			ok := false
			for _, cand := range rng.Perm(len(others)) {
				yy := others[cand]
				fr := f.chain(yy).State.FinalRound
				if fr.Number >= chain.State.RoundLinks[yy] {
					refs.External, y, ok = fr.Hash, yy, true
					break
				}
			}
			if !ok {
				continue
			}
			if variant == "wrong-self" {
				refs.Self = crypto.Blake3Hash([]byte(fmt.Sprint("wrong-self", i)))
			}
		case "stale-external":
			l := finals[y]
			link := chain.State.RoundLinks[y]
			var older *FinalRound
			for _, fr := range l {
				if fr.Number < link {
					older = fr
				}
			}
			if older == nil {
				variant = "valid"
				refs.External = f.chain(y).State.FinalRound.Hash
				if f.chain(y).State.FinalRound.Number < link {
					continue
				}
			} else {
				refs.External = older.Hash
			}
		case "self-external":
			l := finals[x]
			refs.External = l[rng.Intn(len(l))].Hash
		case "self-of-the-round-before-it-grew":
			// valid external reference, but the self reference is the hash the head round had when a transition out of
			// it was refused earlier, before further snapshots joined it
			ok := false
			for _, cand := range rng.Perm(len(others)) {
				yy := others[cand]
				fr := f.chain(yy).State.FinalRound
				if fr.Number >= chain.State.RoundLinks[yy] {
					refs.External, y, ok = fr.Hash, yy, true
					break
				}
			}
			if !ok {
				continue
			}
			refs.Self = shorter[x].hash
		case "unknown-external":
			refs.External = crypto.Blake3Hash([]byte(fmt.Sprint("unknown-round", i)))
			if rng.Intn(2) == 0 { // and a self reference that is not the hash of the previous final round
				refs.Self = crypto.Blake3Hash([]byte(fmt.Sprint("wrong-self-unknown", i)))
				variant = "unknown-external-wrong-self"
			}
		}
		if !wantNew && refs.External == cache.References.External {
			variant = "same-references"
		}
		kind := "new-round"
		if !wantNew {
			kind = "empty-head-update"
		}

		var outcomeErr error
		panicked := false
		var pval any
		// now and then the store refuses the round write (disk trouble): the node either stops (a panic here) or
		// reports the failure with its state unchanged
		injected := false
		if variant == "valid" && rng.Intn(5) == 0 {
			injected = true
			px.mu.Lock()
			px.failures = map[string]int{"StartNewRound": 1, "UpdateEmptyHeadRound": 1}
			px.mu.Unlock()
			variant = "valid-but-the-store-write-fails"
		}
		if path == "strict" {
			// what an announcement from the chain's leader triggers on this replica
			p, v, _ := verifkit.Guard(func() {
				c2, f2 := chain.StateCopy()
				if wantNew {
					_, _, _, outcomeErr = chain.startNewRoundAndPersist(c2, refs, ts, false)
				} else if !refs.Equal(c2.References) {
					outcomeErr = chain.updateEmptyHeadRoundAndPersist(f2, c2, refs, ts, true)
				}
			})
			panicked, pval = p, v
		} else {
			s := &common.Snapshot{Version: common.SnapshotVersionCommonEncoding, NodeId: x, Timestamp: ts, References: refs,
				RoundNumber: cache.Number, Transactions: []crypto.Hash{tx.PayloadHash()}}
			if wantNew {
				s.RoundNumber = cache.Number + 1
			}
			s.Hash = s.PayloadHash()
			if _, err := f.sign(s, rng.Intn(2)); err != nil {
				continue
			}
			d := f.deliver(s, []*common.VersionedTransaction{tx})
			if !d.Finalized && !d.Panicked && d.Err == nil && variant == "valid" {
				d = f.deliver(s, []*common.VersionedTransaction{tx})
			}
			panicked, pval, outcomeErr = d.Panicked, d.PanicVal, d.Err
			if d.Finalized {
				w.Applied(tx, specs)
				r.Count("snapshots_finalized", 1)
			}
		}
		r.Eval()
		px.mu.Lock()
		consumed := injected && (px.failures["StartNewRound"] == 0 || px.failures["UpdateEmptyHeadRound"] == 0)
		px.failures = nil
		px.mu.Unlock()
		if injected && panicked {
			// the node stops on a failed round write; what a restart finds is C22's subject
			r.Count("store_write_failures_answered_by_stopping", 1)
			if err := f.restart(); err != nil {
				t.Fatal(err)
			}
			continue
		}
		if consumed {
			r.Count("store_write_failures_reported_without_stopping", 1)
		}
		after := vC20Capture(f, x)
		moved := after.cacheNumber != before.cacheNumber || after.refs != before.refs
		outcome := "rejected"
		if moved {
			outcome = "accepted"
		}
		r.Nontrivial(fmt.Sprintf("%s|%s|%s|%s", path, kind, variant, outcome))
		r.Count(fmt.Sprintf("%s_%s_%s_%s", path, kind, variant, outcome), 1)
		where := path + "|" + kind + "|" + variant
		if panicked {
			r.Violation("C20|panic|"+where, fmt.Sprintf("round transition attempt panicked: %v", pval), map[string]any{"where": where})
			if err := f.restart(); err != nil {
				t.Fatal(err)
			}
			continue
		}
		_ = outcomeErr
		if !moved {
			rejected++
			if wantNew {
				if sh, ok := shorter[x]; !ok || sh.number != cache.Number {
					_, _, self := verifRoundHashOf(x, cache.Number, cache.Snapshots)
					shorter[x] = vC20Shorter{number: cache.Number, n: len(cache.Snapshots), hash: self}
				}
			}
			// a finalized snapshot in the current round changes the cache snapshots but not the round: compare round-level state only
			if !after.memEqual(before) && len(after.cacheSnaps) == len(before.cacheSnaps) {
				r.Violation("C20|rejected-but-state-changed|"+where, "a rejected round transition changed the chain state", map[string]any{"where": where})
			}
			if after.digest != before.digest {
				r.Violation("C20|rejected-but-store-changed|"+where, "a rejected round transition changed stored ROUND/LINK records", map[string]any{"where": where})
			}
			checkLinks(x, where)
			continue
		}
		accepted++
		// accepted transition
		nc := f.chain(x).State.CacheRound
		if wantNew {
			if nc.Number != before.cacheNumber+1 {
				r.Violation("C20|accepted|number|"+where, fmt.Sprintf("new round number %d after %d", nc.Number, before.cacheNumber), map[string]any{"where": where})
			}
			_, _, self := verifRoundHashOf(x, cache.Number, cache.Snapshots)
			if nc.References.Self != self {
				r.Violation("C20|accepted|self-reference|"+where, "new round does not commit to the hash of the previous final round", map[string]any{"where": where})
			}
			if f.chain(x).State.FinalRound.Hash != self || f.chain(x).State.FinalRound.Number != before.cacheNumber {
				r.Violation("C20|accepted|final-round|"+where, "previous round was not closed with its recomputed hash", map[string]any{"where": where})
			}
		} else if nc.Number != before.cacheNumber || nc.References.Self != before.refs.Self {
			r.Violation("C20|accepted|empty-head-update-changed-self|"+where, "an empty-head reference update changed the round number or the self reference", map[string]any{"where": where})
		}
		ext, err := f.node.persistStore.ReadRound(nc.References.External)
		switch {
		case err != nil || ext == nil:
			r.Violation("C20|accepted|external-unknown|"+where, "accepted external reference is not a stored round", map[string]any{"where": where})
		case ext.NodeId == x:
			r.Violation("C20|accepted|external-own-chain|"+where, "accepted external reference points at the chain itself", map[string]any{"where": where})
		case ext.Hash != nc.References.External || ext.References != nil && ext.Hash == ext.NodeId:
			r.Violation("C20|accepted|external-not-final|"+where, "accepted external reference is not a final round record", map[string]any{"where": where})
		default:
			if ext.Number < before.links[ext.NodeId] {
				r.Violation("C20|accepted|external-stale|"+where, fmt.Sprintf("accepted external round %d is older than the link %d", ext.Number, before.links[ext.NodeId]), map[string]any{"where": where})
			}
			link, _ := f.node.persistStore.ReadLink(x, ext.NodeId)
			if link != ext.Number {
				r.Violation("C20|accepted|link-not-written|"+where, fmt.Sprintf("stored link %d after referencing round %d", link, ext.Number), map[string]any{"where": where})
			}
		}
		checkLinks(x, where)
		noteFinal(x)
		if r.SampleCount() < 5 {
			r.Sample(map[string]any{"path": path, "kind": kind, "variant": variant, "outcome": outcome, "round": nc.Number})
		}
	}
	r.Note("accepted_transitions", accepted)
	r.Note("rejected_transitions", rejected)
	if accepted < 10 || rejected < 10 {
		r.Inconclusive(fmt.Sprintf("accepted %d rejected %d", accepted, rejected))
	}
	r.Finish()
}
