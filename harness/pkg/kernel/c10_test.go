package kernel

import (
	"fmt"
	"testing"
	"time"

	"github.com/MixinNetwork/mixin/common"
	"github.com/MixinNetwork/mixin/config"
	"github.com/MixinNetwork/mixin/crypto"
	"github.com/MixinNetwork/mixin/verifkit"
)

// TestVerif_C10: any two threshold certificates share more than a third of the signer set.
func TestVerif_C10(t *testing.T) {
	r := verifkit.Start(t, "C10", "exploration")
	r.SetRule("configuration grid: accepted counts 7..50, all-genesis or mixed ages (non-genesis nodes accepted at an offset so that the 30 s counting rule and the 12 h signing rule " +
		"are each crossed by -1/0/+1 ns), with and without a predictable removal window, ordinary rounds and the round-zero acceptance certificate of a pledging chain; plus random " +
		"membership histories at all record/maturity/window boundaries. For each configuration T = ConsensusThreshold(ts,true) and K = len(ConsensusKeys(round,ts)) are observed; " +
		"oracle: effective base below 7 => T > K, otherwise 3*(2T-K) > K. non-trivial = distinct (K, T, round-zero?, window?) observations")
	r.Assume("the key set K and threshold T are the ones verifyFinalization uses (the same calls); membership above 50 nodes cannot be created (pledge validation caps it)")
	rng := r.Rand()
	observe := func(h *verifHistory, node *Node, ts uint64, pledging *verifMember, cfg string) {
		ch := &Chain{node: node, ChainId: h.Members[0].Id, State: &ChainState{}}
		round := uint64(1)
		if pledging != nil {
			ch = &Chain{node: node, ChainId: pledging.Id, ConsensusInfo: &CNode{IdForNetwork: pledging.Id, Signer: pledging.Signer, State: common.NodeStatePledging}}
			round = 0
		}
		ids, _ := ch.ConsensusKeys(round, ts)
		K := len(ids)
		T := node.ConsensusThreshold(ts, true)
		_, base := h.refThreshold(ts, true)
		r.Eval()
		win := h.refRemoving(ts) != nil
		r.Nontrivial(fmt.Sprintf("%d|%d|%v|%v", K, T, pledging != nil, win))
		r.Count("observations", 1)
		if pledging != nil {
			r.Count("round_zero_observations", 1)
		}
		if win {
			r.Count("observations_inside_a_removal_window", 1)
		}
		if r.SampleCount() < 5 && rng.Intn(50) == 0 {
			r.Sample(map[string]any{"config": cfg, "K": K, "T": T, "base": base, "round_zero": pledging != nil, "removal_window": win})
		}
		if base < config.KernelMinimumNodesCount {
			if T <= K {
				r.Violation("C10|below-minimum|certificate-possible", fmt.Sprintf("effective membership %d is below the minimum but threshold %d can be met by the %d keys (%s)", base, T, K, cfg),
					map[string]any{"config": cfg, "K": K, "T": T, "base": base, "timestamp": ts})
			}
			return
		}
		if T > K {
			return // no certificate can exist: nothing to intersect
		}
		if 3*(2*T-K) > K {
			return
		}
		cls := "later-round"
		if pledging != nil {
			cls = "round-zero-acceptance"
			if base%3 != 0 {
				cls = "round-zero-acceptance|accepted-count-not-multiple-of-3"
			}
		}
		if win && pledging == nil {
			cls += "|removal-window"
		}
		r.Violation("C10|overlap|"+cls,
			fmt.Sprintf("threshold %d over %d keys: two certificates may share only %d <= %d/3 signers (%s, counted base %d)", T, K, 2*T-K, K, cfg, base),
			map[string]any{"config": cfg, "K": K, "T": T, "base": base, "timestamp": ts, "round_zero": pledging != nil})
	}

	// --- grid ---
	for n := 7; n <= 50; n++ {
		for _, young := range []int{0, 1, n / 3} { // non-genesis members accepted late
			if young >= n-6 {
				continue
			}
			for _, edge := range []uint64{uint64(30 * time.Second), uint64(12 * time.Hour)} {
				for _, d := range []int64{-1, 0, 1, int64(time.Hour)} {
					for _, pl := range []bool{false, true} {
						label := fmt.Sprintf("c10-grid-%d-%d", n, young)
						epoch := uint64(1_700_000_000) * uint64(time.Second)
						h := &verifHistory{Label: label, Epoch: epoch, Genesis: map[crypto.Hash]bool{}}
						h.NetworkId = crypto.Blake3Hash([]byte("verif-net:" + label))
						for i := 0; i < n-young; i++ {
							m := h.member(i)
							h.Genesis[m.Id] = true
							h.add(m, common.NodeStateAccepted, epoch)
						}
						acceptAt := epoch + 3*OneDay + 14*uint64(time.Hour)
						for i := n - young; i < n; i++ {
							h.add(h.member(i), common.NodeStatePledging, acceptAt-uint64(13*time.Hour)+uint64(i))
							h.add(h.member(i), common.NodeStateAccepted, acceptAt+uint64(i))
						}
						ts := acceptAt + uint64(n) + edge + uint64(d)
						var pledging *verifMember
						if pl {
							pledging = h.member(n)
							// pledged more than 12 h before the observed timestamp, in a pledge hour
							h.add(pledging, common.NodeStatePledging, ts-uint64(13*time.Hour))
						}
						h.sortRecords()
						node := h.nodeNoCache()
						cfg := fmt.Sprintf("accepted=%d young=%d edge=%s%+dns pledging=%v", n, young, time.Duration(edge), d, pl)
						observe(h, node, ts, pledging, cfg)
						// and inside / outside the daily operation window
						for _, hr := range []uint64{3, 16, 20} {
							t2 := epoch + 6*OneDay + hr*uint64(time.Hour) + uint64(rng.Intn(3600))*uint64(time.Second)
							if pl && t2 < ts {
								continue
							}
							observe(h, node, t2, pledging, cfg+fmt.Sprintf(" hour=%d", hr))
						}
					}
				}
			}
		}
	}
	// --- random histories ---
	nh := r.N(12, 600)
	for hi := 0; hi < nh; hi++ {
		h := verifRandomHistory(fmt.Sprintf("c10-%d-%d", r.Seed, hi), rng, 7+rng.Intn(20), 5+rng.Intn(40))
		node := h.nodeNoCache()
		for _, ts := range h.boundaries(rng, 30) {
			list := h.refList(ts)
			if len(list) == 0 {
				continue
			}
			var pledging *verifMember
			if last := list[len(list)-1]; last.State == common.NodeStatePledging {
				for _, m := range h.Members {
					if m.Id == last.Id {
						pledging = m
					}
				}
			}
			observe(h, node, ts, nil, "random-history")
			if pledging != nil {
				observe(h, node, ts, pledging, "random-history-pledging-chain")
			}
		}
	}
	r.Finish()
}
