package kernel

import (
	"fmt"
	"math/rand"
	"sort"
	"testing"
	"time"

	"github.com/MixinNetwork/mixin/common"
	"github.com/MixinNetwork/mixin/config"
	"github.com/MixinNetwork/mixin/crypto"
	"github.com/MixinNetwork/mixin/verifkit"
)

// TestVerif_C10: any two threshold certificates share more than a third of the signer set.
func TestVerif_C10(t *testing.T) {
	r := verifkit.Start(t, "C10", "exploration")
	r.SetRule("configuration grid: accepted counts 7..50, all-genesis or mixed ages (non-genesis nodes accepted at an offset so that the 30 s counting rule and the 12 h signing rule " +
		"are each crossed by -1/0/+1 ns), with and without a predictable removal window, ordinary rounds and the round-zero acceptance certificate of a pledging chain; plus random " +
		"membership histories at all record/maturity/window boundaries. For each configuration T = ConsensusThreshold(ts,true) and K = len(ConsensusKeys(round,ts)) are observed; " +
		"oracle: effective base below 7 => T > K, otherwise 3*(2T-K) > K. In addition the threshold is MEASURED on sampled instants (also on main-network histories before the " +
		"activation of the predictive signer set, where the legacy rule tries the key vector from before the operation window as well): honest certificates with K, K-1, ... signers " +
		"are given to verifyFinalization and the smallest accepted count p must satisfy 3*(2p-K) > K over the key vector it was built on. " +
		"non-trivial = distinct (K, T, round-zero?, window?) observations and distinct measured (K, p, vector) triples")
	r.Assume("the key set K and threshold T are the ones verifyFinalization uses (the same calls); membership above 50 nodes cannot be created (pledge validation caps it)")
	rng := r.Rand()
	roundZeroOfAccepted := false
	ownChainOfCandidate := false
	observe := func(h *verifHistory, node *Node, ts uint64, pledging *verifMember, cfg string) {
		// a running chain knows its own node (ConsensusInfo) whether it is pledging or long accepted
		m0 := h.Members[0]
		ch := &Chain{node: node, ChainId: m0.Id, State: &ChainState{},
			ConsensusInfo: &CNode{IdForNetwork: m0.Id, Signer: m0.Signer, State: common.NodeStateAccepted}}
		round := uint64(1)
		if roundZeroOfAccepted {
			round = 0 // a round-zero certificate presented for a chain that is already running
		}
		if ownChainOfCandidate {
			// the chain of the node whose removal is predictable in this window (its own key is not in the set)
			if rc := h.refRemoving(ts); rc != nil {
				for _, m := range h.Members {
					if m.Id == rc.Id {
						ch = &Chain{node: node, ChainId: m.Id, State: &ChainState{},
							ConsensusInfo: &CNode{IdForNetwork: m.Id, Signer: m.Signer, State: common.NodeStateAccepted}}
					}
				}
			}
		}
		if pledging != nil {
			ch = &Chain{node: node, ChainId: pledging.Id, ConsensusInfo: &CNode{IdForNetwork: pledging.Id, Signer: pledging.Signer, State: common.NodeStatePledging}}
			round = 0
		}
		ids, _ := ch.ConsensusKeys(round, ts)
		K := len(ids)
		T := node.ConsensusThreshold(ts, true)
		_, base := h.refThreshold(ts, true)
		r.Eval()
		win := h.refRemoving(ts) != nil
		r.Nontrivial(fmt.Sprintf("%d|%d|%v|%v|%v|%v", K, T, pledging != nil, win, roundZeroOfAccepted, ownChainOfCandidate))
		r.Count("observations", 1)
		if pledging != nil {
			r.Count("round_zero_observations", 1)
		}
		if win {
			r.Count("observations_inside_a_removal_window", 1)
		}
		if r.SampleCount() < 5 && rng.Intn(50) == 0 {
			r.Sample(map[string]any{"config": cfg, "K": K, "T": T, "base": base, "round_zero": pledging != nil, "removal_window": win})
		}
		if base < config.KernelMinimumNodesCount {
			if T <= K {
				r.Violation("C10|below-minimum|certificate-possible", fmt.Sprintf("effective membership %d is below the minimum but threshold %d can be met by the %d keys (%s)", base, T, K, cfg),
					map[string]any{"config": cfg, "K": K, "T": T, "base": base, "timestamp": ts})
			}
			return
		}
		if T > K {
			return // no certificate can exist: nothing to intersect
		}
		if 3*(2*T-K) > K {
			return
		}
		cls := "later-round"
		if roundZeroOfAccepted && pledging == nil {
			cls = "round-zero-of-a-running-chain"
		}
		if ownChainOfCandidate {
			cls = "chain-of-the-removal-candidate"
		}
		if pledging != nil {
			cls = "round-zero-acceptance"
			if base%3 != 0 {
				cls = "round-zero-acceptance|accepted-count-not-multiple-of-3"
			}
		}
		if win && pledging == nil {
			cls += "|removal-window"
		}
		r.Violation("C10|overlap|"+cls,
			fmt.Sprintf("threshold %d over %d keys: two certificates may share only %d <= %d/3 signers (%s, counted base %d)", T, K, 2*T-K, K, cfg, base),
			map[string]any{"config": cfg, "K": K, "T": T, "base": base, "timestamp": ts, "round_zero": pledging != nil})
	}

	// --- grid ---
	for n := 7; n <= 50; n++ {
		for _, young := range []int{0, 1, n / 3} { // non-genesis members accepted late (also so many that fewer than 7 members are effective)
			if young >= n {
				continue
			}
			for _, edge := range []uint64{uint64(30 * time.Second), uint64(12 * time.Hour)} {
				for _, d := range []int64{-1, 0, 1, int64(time.Hour)} {
					for _, pl := range []bool{false, true} {
						label := fmt.Sprintf("c10-grid-%d-%d", n, young)
						epoch := uint64(1_700_000_000) * uint64(time.Second)
						h := &verifHistory{Label: label, Epoch: epoch, Genesis: map[crypto.Hash]bool{}}
						h.NetworkId = crypto.Blake3Hash([]byte("verif-net:" + label))
						for i := 0; i < n-young; i++ {
							m := h.member(i)
							h.Genesis[m.Id] = true
							h.add(m, common.NodeStateAccepted, epoch)
						}
						acceptAt := epoch + 3*OneDay + 14*uint64(time.Hour)
						for i := n - young; i < n; i++ {
							h.add(h.member(i), common.NodeStatePledging, acceptAt-uint64(13*time.Hour)+uint64(i))
							h.add(h.member(i), common.NodeStateAccepted, acceptAt+uint64(i))
						}
						ts := acceptAt + uint64(n) + edge + uint64(d)
						var pledging *verifMember
						if pl {
							pledging = h.member(n)
							// pledged more than 12 h before the observed timestamp, in a pledge hour
							h.add(pledging, common.NodeStatePledging, ts-uint64(13*time.Hour))
						}
						h.sortRecords()
						node := h.nodeNoCache()
						cfg := fmt.Sprintf("accepted=%d young=%d edge=%s%+dns pledging=%v", n, young, time.Duration(edge), d, pl)
						observe(h, node, ts, pledging, cfg)
						// below the minimum also at the place where certificates are judged: no honest certificate, not
						// even a unanimous one, is accepted by verifyFinalization
						if _, base := h.refThreshold(ts, true); base < config.KernelMinimumNodesCount && !pl {
							r.Count("below-minimum_configurations_measured_at_verifyFinalization", 1)
							vC10Measure(t, r, h, ts, rng)
						}
						if !pl {
							roundZeroOfAccepted = true
							observe(h, node, ts, nil, cfg+" round-zero-of-a-running-chain")
							roundZeroOfAccepted = false
						}
						// and inside / outside the daily operation window
						for _, hr := range []uint64{3, 16, 20} {
							t2 := epoch + 6*OneDay + hr*uint64(time.Hour) + uint64(rng.Intn(3600))*uint64(time.Second)
							if pl && t2 < ts {
								continue
							}
							observe(h, node, t2, pledging, cfg+fmt.Sprintf(" hour=%d", hr))
						}
					}
				}
			}
		}
	}
	// --- random histories ---
	nh := r.N(12, 600)
	measuredBudget := r.N(24, 1500)
	for hi := 0; hi < nh; hi++ {
		var h *verifHistory
		if hi%3 == 2 {
			h = verifLegacyHistory(fmt.Sprintf("c10-%d-%d", r.Seed, hi), rng, 8+rng.Intn(19), 5+rng.Intn(40))
			r.Count("legacy_rule_histories", 1)
		} else {
			h = verifRandomHistory(fmt.Sprintf("c10-%d-%d", r.Seed, hi), rng, 7+rng.Intn(20), 5+rng.Intn(40))
		}
		node := h.nodeNoCache()
		// measured thresholds: what verifyFinalization really accepts, over the current key vector and (legacy
		// rule) over the vector from before the operation window
		mt := vC09LegacyTimes(h, rng)
		if b := h.boundaries(rng, 4); len(b) > 0 {
			mt = append(mt, b[rng.Intn(len(b))], b[rng.Intn(len(b))])
		}
		if len(mt) > 4 {
			mt = mt[:4]
		}
		for _, ts := range mt {
			if measuredBudget <= 0 {
				break
			}
			measuredBudget--
			vC10Measure(t, r, h, ts, rng)
		}
		for _, ts := range h.boundaries(rng, 30) {
			list := h.refList(ts)
			if len(list) == 0 {
				continue
			}
			var pledging *verifMember
			if last := list[len(list)-1]; last.State == common.NodeStatePledging {
				for _, m := range h.Members {
					if m.Id == last.Id {
						pledging = m
					}
				}
			}
			observe(h, node, ts, nil, "random-history")
			roundZeroOfAccepted = true
			observe(h, node, ts, nil, "random-history round-zero-of-a-running-chain")
			roundZeroOfAccepted = false
			if h.refRemoving(ts) != nil {
				ownChainOfCandidate = true
				observe(h, node, ts, nil, "random-history chain-of-the-removal-candidate")
				ownChainOfCandidate = false
			}
			if pledging != nil {
				observe(h, node, ts, pledging, "random-history-pledging-chain")
			}
		}
	}
	r.Finish()
}

// vC10Measure finds, by presenting honest certificates with fewer and fewer signers to verifyFinalization, the
// smallest signer count accepted over a key vector, and applies the intersection bound to it.
func vC10Measure(t *testing.T, r *verifkit.Run, h *verifHistory, ts uint64, rng *rand.Rand) {
	list := h.refList(ts)
	var accepted []*verifRefNode
	for _, n := range list {
		if n.State == common.NodeStateAccepted {
			accepted = append(accepted, n)
		}
	}
	if len(accepted) == 0 {
		return
	}
	node, closeNode := h.nodeOwned()
	defer closeNode()
	chain := &Chain{node: node, ChainId: accepted[rng.Intn(len(accepted))].Id, State: &ChainState{}}
	type vec struct {
		name string
		at   uint64
	}
	vecs := []vec{{"current-key-set", ts}}
	if lts, ok := h.refLegacyTs(ts); ok {
		vecs = append(vecs, vec{"legacy-key-set", lts})
	}
	for _, v := range vecs {
		ids, pubs := chain.ConsensusKeys(1, v.at)
		K := len(ids)
		if K == 0 || K > 64 {
			continue
		}
		// a certificate counts for the legacy vector only if it cannot also be read against the current one: the two
		// vectors agree up to the first node that is in one and not in the other, and a mask that only names positions
		// before it is the very same certificate over the current keys (decided by the current threshold). Every
		// certificate presented for the legacy vector therefore names at least one position from there on.
		differFrom := 0
		if v.name == "legacy-key-set" {
			cur, _ := chain.ConsensusKeys(1, ts)
			for differFrom < K && differFrom < len(cur) && cur[differFrom] == ids[differFrom] {
				differFrom++
			}
			if differFrom >= K {
				continue
			}
		}
		minAccepted := 0
		for n := K; n >= 1; n-- {
			s := &common.Snapshot{Version: common.SnapshotVersionCommonEncoding, NodeId: chain.ChainId, RoundNumber: 1, Timestamp: ts,
				References:   &common.RoundLink{Self: crypto.Blake3Hash([]byte("self")), External: crypto.Blake3Hash([]byte("ext"))},
				Transactions: []crypto.Hash{crypto.Blake3Hash([]byte(fmt.Sprint("c10-measure", ts, n, v.name)))}}
			s.Hash = s.PayloadHash()
			pos := rng.Perm(K)[:n]
			beyond := false
			for _, p := range pos {
				beyond = beyond || p >= differFrom
			}
			if !beyond {
				pos[rng.Intn(n)] = differFrom + rng.Intn(K-differFrom)
			}
			sort.Ints(pos)
			sig, err := vC09Cosi(h, s.Hash, ids, pubs, pos)
			if err != nil {
				r.Count("signing_errors", 1)
				break
			}
			s.Signature = sig
			if _, ok := chain.verifyFinalization(s); !ok {
				break
			}
			minAccepted = n
		}
		r.Eval()
		r.Count("measured_thresholds_"+v.name, 1)
		_, base := h.refThreshold(v.at, true)
		if minAccepted == 0 {
			r.Count("measured_key_vectors_without_accepted_certificate", 1)
			continue
		}
		r.Nontrivial(fmt.Sprintf("measured|%d|%d|%s", K, minAccepted, v.name))
		w := map[string]any{"key_vector": v.name, "K": K, "smallest_accepted_signer_count": minAccepted, "timestamp": ts, "counted_base": base,
			"hours_since_epoch": float64(ts-h.Epoch) / float64(time.Hour), "main_network": h.NetworkId == verifMainnetId()}
		if base < config.KernelMinimumNodesCount {
			r.Violation("C10|measured|below-minimum|"+v.name, fmt.Sprintf("effective membership %d is below the minimum but a certificate of %d signers over %d keys is accepted", base, minAccepted, K), w)
			continue
		}
		if 3*(2*minAccepted-K) <= K {
			r.Violation("C10|measured|overlap|"+v.name, fmt.Sprintf("a certificate of %d signers over %d keys is accepted: two such certificates may share only %d <= %d/3 signers", minAccepted, K, 2*minAccepted-K, K), w)
		}
	}
}
