package kernel

// C19 — A round never spans a full round gap and holds no duplicates.
//
// Runtime monitor, white-box on (*CacheRound).validateSnapshot / ValidateSnapshot /
// Gap / asFinal. Seeded candidate sequences are offered to a live round exactly as
// Chain.AddSnapshot does (validateSnapshot(s, true)); the timestamps are clustered
// at +-{0,1} ns around start/end -+ gap, around day boundaries and around already
// accepted timestamps; hashes are repeated and transactions overlap. After every
// accept the harness checks, with its own arithmetic over its own list of accepted
// snapshots and over the round's Snapshots slice: pairwise distinct hashes,
// timestamps and transactions, one day, max-min < SnapshotRoundGap, and that
// Gap() and asFinal() (round closing) do not panic.

import (
	"encoding/binary"
	"fmt"
	"math/rand"
	"strings"
	"sync"
	"testing"

	"github.com/MixinNetwork/mixin/common"
	"github.com/MixinNetwork/mixin/config"
	"github.com/MixinNetwork/mixin/crypto"
	"github.com/MixinNetwork/mixin/verifkit"
)

const vC19Day = uint64(86400) * 1000000000

type vC19Cand struct {
	S      *common.Snapshot
	Origin string // how the timestamp / hash was chosen
}

type vC19Step struct {
	Timestamp uint64   `json:"timestamp"`
	Rel       int64    `json:"timestamp_minus_anchor"`
	Hash      string   `json:"hash"`
	Txs       []string `json:"transactions"`
	Origin    string   `json:"origin"`
	PreCheck  string   `json:"validate_only,omitempty"`
	Verdict   string   `json:"verdict"`
	Model     string   `json:"model"`
}

func vC19RandHash(rng *rand.Rand) crypto.Hash {
	var h crypto.Hash
	rng.Read(h[:])
	return h
}

func vC19Short(h crypto.Hash) string { return h.String()[:12] }

// vC19Model says, with plain arithmetic over the accepted list, whether adding s
// keeps the round inside the property ("ok") or which clause it would break.
func vC19Model(accepted []*common.Snapshot, s *common.Snapshot) string {
	if len(accepted) == 0 {
		return "ok"
	}
	lo, hi := accepted[0].Timestamp, accepted[0].Timestamp
	for _, a := range accepted {
		if a.Timestamp < lo {
			lo = a.Timestamp
		}
		if a.Timestamp > hi {
			hi = a.Timestamp
		}
	}
	for _, a := range accepted {
		if a.Hash == s.Hash {
			return "duplicate-hash"
		}
	}
	for _, a := range accepted {
		if a.Timestamp == s.Timestamp {
			return "duplicate-timestamp"
		}
	}
	for _, a := range accepted {
		for _, x := range a.Transactions {
			for _, y := range s.Transactions {
				if x == y {
					return "duplicate-transaction"
				}
			}
		}
	}
	for _, a := range accepted {
		if a.Timestamp/vC19Day != s.Timestamp/vC19Day {
			return "day-leap"
		}
	}
	if s.Timestamp < lo && hi-s.Timestamp >= config.SnapshotRoundGap {
		return "span-before-start"
	}
	if s.Timestamp > hi && s.Timestamp-lo >= config.SnapshotRoundGap {
		return "span-after-end"
	}
	return "ok"
}

// vC19Invariant checks the property's clauses on a list of snapshots; it returns
// the first broken clause or "".
func vC19Invariant(list []*common.Snapshot) (string, string) {
	if len(list) == 0 {
		return "", ""
	}
	lo, hi := list[0].Timestamp, list[0].Timestamp
	for i, a := range list {
		if a.Timestamp < lo {
			lo = a.Timestamp
		}
		if a.Timestamp > hi {
			hi = a.Timestamp
		}
		for j := 0; j < i; j++ {
			b := list[j]
			if a.Hash == b.Hash {
				return "duplicate-hash", fmt.Sprintf("two accepted snapshots share hash %s", a.Hash)
			}
			if a.Timestamp == b.Timestamp {
				return "duplicate-timestamp", fmt.Sprintf("two accepted snapshots share timestamp %d", a.Timestamp)
			}
			if a.Timestamp/vC19Day != b.Timestamp/vC19Day {
				return "day-leap", fmt.Sprintf("accepted timestamps %d and %d are on different days", b.Timestamp, a.Timestamp)
			}
			for _, x := range a.Transactions {
				for _, y := range b.Transactions {
					if x == y {
						return "duplicate-transaction", fmt.Sprintf("transaction %s is in two accepted snapshots", x)
					}
				}
			}
		}
	}
	if hi-lo >= config.SnapshotRoundGap {
		return "span-reaches-gap", fmt.Sprintf("accepted timestamps span %d ns >= round gap %d", hi-lo, config.SnapshotRoundGap)
	}
	return "", ""
}

type vC19Seq struct {
	rng      *rand.Rand
	node     crypto.Hash
	number   uint64
	anchor   uint64
	boundary uint64 // the day boundary nearest to the anchor
	pool     []crypto.Hash
	offered  []*common.Snapshot
}

func (q *vC19Seq) pm1() int64 { return int64(q.rng.Intn(3)) - 1 }

func (q *vC19Seq) timestamp(accepted []*common.Snapshot) (uint64, string) {
	rng := q.rng
	gap := int64(config.SnapshotRoundGap)
	add := func(base uint64, d int64) uint64 { return uint64(int64(base) + d) }
	if len(accepted) == 0 {
		switch rng.Intn(4) {
		case 0:
			return q.anchor, "anchor"
		case 1:
			return add(q.boundary, q.pm1()), "day-boundary+-1"
		default:
			return add(q.anchor, rng.Int63n(2*gap)-gap), "anchor+-gap"
		}
	}
	lo, hi := accepted[0].Timestamp, accepted[0].Timestamp
	for _, a := range accepted {
		if a.Timestamp < lo {
			lo = a.Timestamp
		}
		if a.Timestamp > hi {
			hi = a.Timestamp
		}
	}
	switch rng.Intn(16) {
	case 0:
		return add(lo, -gap+q.pm1()), "start-gap+-1"
	case 1:
		return add(hi, -gap+q.pm1()), "end-gap+-1"
	case 2:
		return add(lo, gap+q.pm1()), "start+gap+-1"
	case 3:
		return add(hi, gap+q.pm1()), "end+gap+-1"
	case 4:
		a := accepted[rng.Intn(len(accepted))]
		return add(a.Timestamp, q.pm1()), "accepted-timestamp+-1"
	case 5:
		return add(q.boundary, q.pm1()), "day-boundary+-1"
	case 6:
		if hi > lo {
			return lo + uint64(rng.Int63n(int64(hi-lo))), "inside"
		}
		return add(lo, q.pm1()), "start+-1"
	case 7:
		switch rng.Intn(4) {
		case 0:
			return add(q.anchor, int64(vC19Day)+q.pm1()), "anchor+day"
		case 1:
			return add(q.anchor, -int64(vC19Day)+q.pm1()), "anchor-day"
		case 2:
			return add(hi, gap*int64(2+rng.Intn(5))), "far-after"
		default:
			return add(lo, -gap*int64(2+rng.Intn(5))), "far-before"
		}
	case 8:
		return add(lo, -1-rng.Int63n(gap/3)), "slightly-before-start"
	case 9:
		return add(hi, 1+rng.Int63n(gap/3)), "slightly-after-end"
	case 10:
		return add(lo, gap-1-int64(rng.Intn(3))), "start+gap-1.."
	case 11:
		return add(hi, -gap+1+int64(rng.Intn(3))), "end-gap+1.."
	case 12:
		return add(q.boundary, rng.Int63n(2*gap)-gap), "day-boundary+-gap"
	default:
		return add(q.anchor, rng.Int63n(2*gap+10)-gap-5), "anchor+-gap"
	}
}

func (q *vC19Seq) candidate(accepted []*common.Snapshot) *vC19Cand {
	rng := q.rng
	if len(q.offered) > 0 && rng.Intn(20) == 0 {
		// the very same snapshot is delivered again
		return &vC19Cand{S: q.offered[rng.Intn(len(q.offered))], Origin: "redelivery"}
	}
	ts, origin := q.timestamp(accepted)
	s := &common.Snapshot{
		Version:     common.SnapshotVersionCommonEncoding,
		NodeId:      q.node,
		RoundNumber: q.number,
		Timestamp:   ts,
		References:  &common.RoundLink{Self: q.pool[0], External: q.pool[1]},
	}
	ntx := 1 + rng.Intn(3)
	if q.number == 0 {
		ntx = 1
	}
	for len(s.Transactions) < ntx {
		var h crypto.Hash
		if rng.Intn(100) < 25 {
			h = q.pool[2+rng.Intn(len(q.pool)-2)]
		} else {
			h = vC19RandHash(rng)
		}
		dup := false
		for _, x := range s.Transactions {
			dup = dup || x == h
		}
		if !dup {
			s.Transactions = append(s.Transactions, h)
		}
	}
	s.Hash = s.PayloadHash()
	if p := rng.Intn(100); p < 8 && len(accepted) > 0 {
		s.Hash = accepted[rng.Intn(len(accepted))].Hash
		origin += ",hash-of-accepted"
	} else if p < 12 && len(q.offered) > 0 {
		s.Hash = q.offered[rng.Intn(len(q.offered))].Hash
		origin += ",hash-of-offered"
	}
	return &vC19Cand{S: s, Origin: origin}
}

func vC19ErrClass(err error) string {
	if err == nil {
		return "accepted"
	}
	m := err.Error()
	switch {
	case strings.Contains(m, "day leap"):
		return "rejected:day-leap"
	case strings.Contains(m, "gap start"):
		return "rejected:gap-start"
	case strings.Contains(m, "gap end"):
		return "rejected:gap-end"
	case strings.Contains(m, "duplication"):
		return "rejected:duplication"
	}
	return "rejected:other"
}

type vC19Ctr map[string]int

func (c vC19Ctr) add(name string, d int) { c[name] += d }

func (c vC19Ctr) flush(r *verifkit.Run) {
	for k, v := range c {
		r.Count(k, v)
		delete(c, k)
	}
}

func vC19RunSequence(r *verifkit.Run, rng *rand.Rand, ctr vC19Ctr) {
	gap := config.SnapshotRoundGap
	q := &vC19Seq{rng: rng, node: vC19RandHash(rng)}
	switch rng.Intn(8) {
	case 0:
		q.number = 0
	default:
		q.number = 1 + uint64(rng.Int63n(1<<40))
	}
	day := uint64(17400 + rng.Intn(18000)) // 2017 .. 2066
	q.boundary = day * vC19Day
	anchorMode := ""
	switch rng.Intn(5) {
	case 0, 1:
		anchorMode = "mid-day"
		q.anchor = q.boundary + 2*gap + uint64(rng.Int63n(int64(vC19Day-4*gap)))
		if rng.Intn(2) == 0 {
			q.boundary += vC19Day
		}
	case 2:
		anchorMode = "on-day-boundary"
		q.anchor = q.boundary - uint64(rng.Intn(2))
	default:
		anchorMode = "within-gap-of-day-boundary"
		q.anchor = uint64(int64(q.boundary) + rng.Int63n(2*int64(gap)) - int64(gap))
	}
	for i := 4 + rng.Intn(8); i > 0; i-- {
		q.pool = append(q.pool, vC19RandHash(rng))
	}

	c := &CacheRound{
		NodeId: q.node, Number: q.number, Timestamp: q.anchor,
		References: &common.RoundLink{Self: q.pool[0], External: q.pool[1]},
		index:      newRoundIndexCache(),
	}
	var accepted []*common.Snapshot
	var steps []vC19Step
	var key []byte
	rejected, boundaryHits := 0, 0
	witness := func() map[string]any {
		return map[string]any{
			"node": q.node.String(), "round": q.number, "anchor": q.anchor, "anchor_mode": anchorMode,
			"round_gap": gap, "day_ns": vC19Day, "steps": steps,
		}
	}

	length := 6 + rng.Intn(30)
	broken := false
	for i := 0; i < length && !broken; i++ {
		cand := q.candidate(accepted)
		s := cand.S
		model := vC19Model(accepted, s)
		step := vC19Step{
			Timestamp: s.Timestamp, Rel: int64(s.Timestamp) - int64(q.anchor), Hash: vC19Short(s.Hash),
			Origin: cand.Origin, Model: model,
		}
		for _, x := range s.Transactions {
			step.Txs = append(step.Txs, vC19Short(x))
		}

		// the live node first validates (add=false) and later adds (add=true)
		if rng.Intn(3) == 0 {
			var perr error
			panicked, val, stack := verifkit.Guard(func() { perr = c.ValidateSnapshot(s) })
			if panicked {
				step.PreCheck = "panic"
				steps = append(steps, step)
				r.Violation(fmt.Sprintf("C19|panic in ValidateSnapshot|%s", verifkit.PanicSite(stack)),
					fmt.Sprintf("ValidateSnapshot panicked on a round built only from accepted snapshots: %v", val), witness())
				broken = true
				break
			}
			step.PreCheck = vC19ErrClass(perr)
			ctr.add("validate_only_calls", 1)
		}

		var err error
		panicked, val, stack := verifkit.Guard(func() { err = c.validateSnapshot(s, true) })
		if panicked {
			step.Verdict = "panic"
			steps = append(steps, step)
			r.Violation(fmt.Sprintf("C19|panic in validateSnapshot|%s", verifkit.PanicSite(stack)),
				fmt.Sprintf("validateSnapshot(s, true) panicked on a round built only from accepted snapshots: %v", val), witness())
			broken = true
			break
		}
		step.Verdict = vC19ErrClass(err)
		steps = append(steps, step)
		q.offered = append(q.offered, s)
		ctr.add("candidates", 1)
		ctr.add("origin_"+strings.SplitN(cand.Origin, ",", 2)[0], 1)
		key = binary.AppendVarint(key, step.Rel)
		if err != nil {
			key = append(key, 0)
			rejected++
			ctr.add(step.Verdict, 1)
			ctr.add("model_"+model, 1)
			if model == "ok" {
				// not demanded by the property (it only constrains what is accepted)
				ctr.add("rejected_although_model_ok", 1)
			}
			if len(accepted) > 0 {
				lo, hi := accepted[0].Timestamp, accepted[0].Timestamp
				for _, a := range accepted {
					lo, hi = min(lo, a.Timestamp), max(hi, a.Timestamp)
				}
				if (s.Timestamp > hi && s.Timestamp-lo == gap) || (s.Timestamp < lo && hi-s.Timestamp == gap) {
					ctr.add("rejected_span_exactly_gap", 1)
					boundaryHits++
				}
				if model == "day-leap" && (s.Timestamp == q.boundary || s.Timestamp == q.boundary-1) {
					ctr.add("rejected_1ns_across_day_boundary", 1)
					boundaryHits++
				}
			}
			continue
		}
		key = append(key, 1)
		accepted = append(accepted, s)
		ctr.add("accepted", 1)
		if model != "ok" {
			ctr.add("accepted_although_model_"+model, 1)
		}

		// ---- oracle: clauses of the property on what was accepted ----
		clause, detail := vC19Invariant(accepted)
		if clause == "" {
			// the round object that will be closed must satisfy them too
			clause, detail = vC19Invariant(c.Snapshots)
			if clause != "" {
				clause += " (CacheRound.Snapshots)"
			}
		}
		if clause != "" {
			class := model
			r.Violation(fmt.Sprintf("C19|accepted snapshots: %s|candidate class %s", clause, class),
				fmt.Sprintf("after %d accepts: %s", len(accepted), detail), witness())
			broken = true
		}
		var span uint64
		{
			lo, hi := accepted[0].Timestamp, accepted[0].Timestamp
			for _, a := range accepted {
				lo, hi = min(lo, a.Timestamp), max(hi, a.Timestamp)
			}
			span = hi - lo
		}
		if span == gap-1 {
			ctr.add("accepted_span_gap_minus_1", 1)
			boundaryHits++
		}
		if s.Timestamp%vC19Day == 0 || s.Timestamp%vC19Day == vC19Day-1 {
			ctr.add("accepted_first_or_last_ns_of_day", 1)
			boundaryHits++
		}

		// ---- closing must not fail ----
		var final *FinalRound
		// (closing sorts the round's snapshots in place; accepting only appends. The live round is therefore closed on a
		// copy most of the time, so that it keeps the order in which its snapshots arrived, as between two closings of
		// a running node)
		closing := c
		if (len(accepted)+int(q.anchor%3))%3 != 0 {
			closing = c.Copy()
		}
		panicked, val, stack = verifkit.Guard(func() {
			closing.Gap()
			final = closing.asFinal()
		})
		ctr.add("closings", 1)
		if panicked {
			if !broken { // otherwise it is the consequence already reported above
				r.Violation(fmt.Sprintf("C19|closing fails|%s", verifkit.PanicSite(stack)),
					fmt.Sprintf("Gap()/asFinal() panicked on a round of %d accepted snapshots that satisfies every clause: %v", len(accepted), val), witness())
			} else {
				ctr.add("closing_panics_after_broken_invariant", 1)
			}
			broken = true
		} else if final == nil && !broken {
			r.Violation("C19|closing fails|asFinal returned nil", "asFinal returned nil for a non-empty round", witness())
			broken = true
		}
	}

	r.Eval()
	ctr.add("anchor_"+anchorMode, 1)
	if len(accepted) >= 2 && rejected >= 1 {
		r.Nontrivial(string(key))
		if boundaryHits > 0 {
			ctr.add("sequences_touching_a_boundary", 1)
		}
	} else {
		ctr.add("sequences_trivial", 1)
	}
	if len(accepted) > 0 {
		ctr.add(fmt.Sprintf("round_size_%02d_plus", min(len(accepted)/4*4, 20)), 1)
	}
	if r.SampleCount() < 6 && len(accepted) >= 3 && rejected >= 3 && len(steps) <= 14 {
		r.Sample(witness())
	}
}

func TestVerif_C19(t *testing.T) {
	r := verifkit.Start(t, "C19", "exploration")
	r.SetRule("seeded sequences of 6..35 candidate snapshots offered to one live CacheRound through validateSnapshot(s,true) (one third preceded by ValidateSnapshot); anchor mid-day, on a day boundary or within one gap of it (days 2017..2066); candidate timestamps at {start,end} -+ gap +-1 ns, start+gap-1.., end-gap+1.., accepted timestamps +-1, day boundary +-1, inside, slightly outside, +-1 day, far away; 25% of transactions drawn from a pool of 2..9 hashes; 12% repeated hashes, 5% redelivery of the same object; round 0 in 1/8. Non-trivial = sequence with >= 2 accepts and >= 1 rejection; distinct by the vector of (timestamp - anchor, verdict).")
	r.Assume("timestamps stay in the reachable range (2017..2066); uint64 wrap-around of timestamp+gap near 2^64 is outside the domain the protocol can produce")
	r.Assume("candidates respect validateSnapshot's documented preconditions (RoundNumber equals the round, non-zero hash, version 2, no transaction repeated inside one snapshot); violating them panics by design and is not a round-closing failure")
	r.Assume("the round starts empty and grows only through accepted candidates, as in Chain.AddSnapshot; rounds reloaded from storage (loadHeadRoundForNode) are not exercised here")
	r.SetFloor(50)

	total := r.N(20000, 1500000)
	const workers = 8
	var wg sync.WaitGroup
	for w := 0; w < workers; w++ {
		wg.Add(1)
		go func(w int) {
			defer wg.Done()
			rng := r.Fork("C19-worker", w)
			ctr := vC19Ctr{}
			defer ctr.flush(r)
			for i := w; i < total; i += workers {
				vC19RunSequence(r, rng, ctr)
			}
		}(w)
	}
	wg.Wait()
	if r.Counter("accepted") < int64(total) || r.Counter("model_span-after-end")+r.Counter("model_span-before-start") < int64(total)/10 {
		r.Inconclusive("workload did not reach the gap boundary often enough")
	}
	r.Finish()
}
