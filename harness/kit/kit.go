// Package verifkit is the shared runtime-monitoring kit: seeded PRNG, evidence
// writer, violation/known-finding plumbing and replay files. It is overlaid
// into the repository build as github.com/MixinNetwork/mixin/verifkit and has
// no dependency on the repository itself.
package verifkit

import (
	"bufio"
	"crypto/sha256"
	"encoding/hex"
	"encoding/json"
	"fmt"
	"math/rand"
	"os"
	"path/filepath"
	"runtime/debug"
	"sort"
	"strconv"
	"strings"
	"sync"
	"testing"
	"time"
)

type knownEntry struct {
	status string // known | fixed
	prop   string
	sig    string
	what   string
}

type Run struct {
	t     *testing.T
	Prop  string
	Level string
	Tier  string
	Seed  int64

	mu          sync.Mutex
	rng         *rand.Rand
	start       time.Time
	evals       int64
	nontrivial  map[string]struct{}
	ntOverflow  int64
	samples     []any
	counters    map[string]int64
	notes       map[string]any
	assumptions []string
	rule        string
	floor       int
	exhaustive  bool

	known      []knownEntry
	violations map[string]string // sig -> replay path
	knownHit   map[string]string // sig -> what
	inconcl    []string
	finished   bool
}

func envOr(k, d string) string {
	if v := os.Getenv(k); v != "" {
		return v
	}
	return d
}

// Start begins a monitored run for one property. level is the evidence level
// (exploration | fault_enumeration).
func Start(t *testing.T, prop, level string) *Run {
	t.Helper()
	if p := os.Getenv("VERIF_PROP"); p != "" && p != prop {
		t.Skipf("verif: not selected (%s != %s)", p, prop)
	}
	seed, _ := strconv.ParseInt(envOr("VERIF_SEED", "1"), 10, 64)
	tier := envOr("VERIF_TIER", "quick")
	if tier != "quick" && tier != "thorough" {
		tier = "quick"
	}
	r := &Run{
		t: t, Prop: prop, Level: level, Tier: tier, Seed: seed,
		rng:        rand.New(rand.NewSource(seed*1000003 + int64(hashString(prop)))),
		start:      time.Now(),
		nontrivial: make(map[string]struct{}),
		counters:   make(map[string]int64),
		notes:      make(map[string]any),
		violations: make(map[string]string),
		knownHit:   make(map[string]string),
		floor:      2,
	}
	r.loadKnown()
	t.Cleanup(func() {
		if !r.finished {
			r.Finish()
		}
	})
	return r
}

func hashString(s string) uint32 {
	h := sha256.Sum256([]byte(s))
	return uint32(h[0])<<24 | uint32(h[1])<<16 | uint32(h[2])<<8 | uint32(h[3])
}

func (r *Run) loadKnown() {
	path := os.Getenv("VERIF_KNOWN")
	if path == "" {
		return
	}
	f, err := os.Open(path)
	if err != nil {
		return
	}
	defer f.Close()
	sc := bufio.NewScanner(f)
	sc.Buffer(make([]byte, 1<<20), 1<<20)
	for sc.Scan() {
		line := strings.TrimSpace(sc.Text())
		if line == "" || strings.HasPrefix(line, "#") {
			continue
		}
		// known: property=C10 sig=<sig-without-spaces> <what fails>
		// fixed: property=C05 <commit> sig=<sig> <what failed>
		var e knownEntry
		switch {
		case strings.HasPrefix(line, "known:"):
			e.status = "known"
		case strings.HasPrefix(line, "fixed:"):
			e.status = "fixed"
		default:
			continue
		}
		for _, f := range strings.Fields(line) {
			if strings.HasPrefix(f, "property=") {
				e.prop = strings.TrimPrefix(f, "property=")
			}
			if strings.HasPrefix(f, "sig=") {
				e.sig = strings.TrimPrefix(f, "sig=")
			}
		}
		if i := strings.Index(line, "sig="+e.sig); i >= 0 && e.sig != "" {
			e.what = strings.TrimSpace(line[i+len("sig="+e.sig):])
		}
		r.known = append(r.known, e)
	}
}

// Rand returns the run's seeded PRNG. Not safe for concurrent use; use Fork for
// goroutines.
func (r *Run) Rand() *rand.Rand { return r.rng }

// Fork derives an independent deterministic PRNG.
func (r *Run) Fork(label string, i int) *rand.Rand {
	return rand.New(rand.NewSource(r.Seed*7919 + int64(hashString(label))*31 + int64(i)))
}

func (r *Run) Thorough() bool { return r.Tier == "thorough" }

// N picks the case budget for the tier.
func (r *Run) N(quick, thorough int) int {
	if r.Thorough() {
		return thorough
	}
	return quick
}

func (r *Run) SetRule(s string)     { r.mu.Lock(); r.rule = s; r.mu.Unlock() }
func (r *Run) SetFloor(n int)       { r.mu.Lock(); r.floor = n; r.mu.Unlock() }
func (r *Run) SetExhaustive(b bool) { r.mu.Lock(); r.exhaustive = b; r.mu.Unlock() }
func (r *Run) Assume(s string) {
	r.mu.Lock()
	r.assumptions = append(r.assumptions, s)
	r.mu.Unlock()
}

// Eval counts one executed case.
func (r *Run) Eval()       { r.mu.Lock(); r.evals++; r.mu.Unlock() }
func (r *Run) Evals(n int) { r.mu.Lock(); r.evals += int64(n); r.mu.Unlock() }

// Nontrivial records a distinct non-trivial case by key (deduplicated).
func (r *Run) Nontrivial(key string) {
	r.mu.Lock()
	defer r.mu.Unlock()
	if len(r.nontrivial) >= 2_000_000 {
		if _, ok := r.nontrivial[key]; !ok {
			r.ntOverflow++ // not counted as distinct: conservative
		}
		return
	}
	if len(key) > 40 {
		h := sha256.Sum256([]byte(key))
		key = hex.EncodeToString(h[:16])
	}
	r.nontrivial[key] = struct{}{}
}

func (r *Run) Count(name string, d int) {
	r.mu.Lock()
	r.counters[name] += int64(d)
	r.mu.Unlock()
}

func (r *Run) Counter(name string) int64 {
	r.mu.Lock()
	defer r.mu.Unlock()
	return r.counters[name]
}

func (r *Run) Note(name string, v any) {
	r.mu.Lock()
	r.notes[name] = v
	r.mu.Unlock()
}

// Sample keeps up to 6 actual cases for the evidence file.
func (r *Run) Sample(v any) {
	r.mu.Lock()
	defer r.mu.Unlock()
	if len(r.samples) < 6 {
		r.samples = append(r.samples, v)
	}
}

func (r *Run) SampleCount() int {
	r.mu.Lock()
	defer r.mu.Unlock()
	return len(r.samples)
}

// Inconclusive marks the run as not decided (e.g. a checker timeout).
func (r *Run) Inconclusive(why string) {
	r.mu.Lock()
	r.inconcl = append(r.inconcl, why)
	r.mu.Unlock()
}

func sanitizeSig(sig string) string {
	sig = strings.Join(strings.Fields(sig), "_")
	return sig
}

// Violation reports a refuting observation. sig identifies the class of the
// failing input/call site/history (stable across seeds); what is a one-line
// description; witness is written to the replay file.
func (r *Run) Violation(sig, what string, witness any) {
	sig = sanitizeSig(sig)
	r.mu.Lock()
	defer r.mu.Unlock()
	for _, k := range r.known {
		if k.status == "known" && k.prop == r.Prop && k.sig == sig {
			if _, ok := r.knownHit[sig]; !ok {
				w := k.what
				if w == "" {
					w = what
				}
				r.knownHit[sig] = w
				fmt.Printf("KNOWN-FINDING: property=%s %s\n", r.Prop, w)
			}
			r.counters["known_finding_observations"]++
			return
		}
	}
	r.counters["violation_observations"]++
	if _, ok := r.violations[sig]; ok {
		return
	}
	path := r.writeReplay(sig, what, witness)
	r.violations[sig] = path
	fmt.Printf("VIOLATION property=%s replay=%s\n", r.Prop, path)
	fmt.Printf("  signature: %s\n  what: %s\n", sig, what)
}

func (r *Run) Violations() int {
	r.mu.Lock()
	defer r.mu.Unlock()
	return len(r.violations)
}

func (r *Run) writeReplay(sig, what string, witness any) string {
	dir := envOr("VERIF_REPLAY_DIR", os.TempDir())
	_ = os.MkdirAll(dir, 0o755)
	h := sha256.Sum256([]byte(sig))
	path := filepath.Join(dir, fmt.Sprintf("%s-%s.json", r.Prop, hex.EncodeToString(h[:6])))
	doc := map[string]any{
		"property":  r.Prop,
		"signature": sig,
		"what":      what,
		"seed":      r.Seed,
		"tier":      r.Tier,
		"witness":   witness,
	}
	b, err := json.MarshalIndent(doc, "", " ")
	if err != nil {
		b, _ = json.MarshalIndent(map[string]any{
			"property": r.Prop, "signature": sig, "what": what, "seed": r.Seed, "tier": r.Tier,
			"witness": fmt.Sprintf("%+v", witness),
		}, "", " ")
	}
	_ = os.WriteFile(path, b, 0o644)
	return path
}

// Guard runs f and converts a panic into (panicked=true, value, stack).
func Guard(f func()) (panicked bool, val any, stack string) {
	defer func() {
		if e := recover(); e != nil {
			panicked, val, stack = true, e, string(debug.Stack())
		}
	}()
	f()
	return
}

// PanicSite extracts a short "file:func" site from a stack produced by Guard:
// the first frame inside the repository that is not part of the harness.
func PanicSite(stack string) string {
	lines := strings.Split(stack, "\n")
	for i := 0; i+1 < len(lines); i++ {
		fn := strings.TrimSpace(lines[i])
		loc := strings.TrimSpace(lines[i+1])
		if !strings.Contains(fn, "MixinNetwork/mixin/") {
			continue
		}
		if strings.Contains(fn, "verifkit") || strings.Contains(fn, "verifgen") || strings.Contains(fn, "verifledger") ||
			strings.Contains(loc, "zz_verif") || strings.Contains(fn, "Verif") || strings.Contains(fn, "verif") {
			continue
		}
		if j := strings.LastIndex(fn, "("); j > 0 {
			fn = fn[:j]
		}
		fn = strings.TrimPrefix(fn, "github.com/MixinNetwork/mixin/")
		return fn
	}
	return "unknown"
}

// Finish writes the evidence file and fails the test on violations. A run that
// observed fewer distinct non-trivial cases than the floor is inconclusive.
func (r *Run) Finish() {
	r.mu.Lock()
	if r.finished {
		r.mu.Unlock()
		return
	}
	r.finished = true
	nt := len(r.nontrivial)
	cov := map[string]any{
		"evaluations":         r.evals,
		"distinct_nontrivial": nt,
		"rule":                r.rule,
		"samples":             r.samples,
	}
	if r.exhaustive {
		cov["exhaustive"] = true
	}
	names := make([]string, 0, len(r.counters))
	for k := range r.counters {
		names = append(names, k)
	}
	sort.Strings(names)
	ctr := map[string]int64{}
	for _, k := range names {
		ctr[k] = r.counters[k]
	}
	cov["counters"] = ctr
	for k, v := range r.notes {
		cov[k] = v
	}
	if r.ntOverflow > 0 {
		cov["nontrivial_not_counted_after_cap"] = r.ntOverflow
	}
	if len(r.knownHit) > 0 {
		kh := []string{}
		for s := range r.knownHit {
			kh = append(kh, s)
		}
		sort.Strings(kh)
		cov["known_findings_observed"] = kh
	}
	if len(r.samples) == 0 {
		cov["samples"] = []any{"(no sample recorded)"}
	}
	inconcl := append([]string{}, r.inconcl...)
	if nt < r.floor {
		inconcl = append(inconcl, fmt.Sprintf("observed only %d distinct non-trivial cases (floor %d)", nt, r.floor))
	}
	if r.evals < 1 {
		inconcl = append(inconcl, "no evaluations")
	}
	if len(inconcl) > 0 {
		cov["inconclusive"] = inconcl
	}
	doc := map[string]any{
		"property_id": r.Prop,
		"tier":        r.Tier,
		"seed":        r.Seed,
		"level":       r.Level,
		"coverage":    cov,
		"assumptions": r.assumptions,
		"wall_s":      time.Since(r.start).Seconds(),
		"violations":  len(r.violations),
	}
	if r.assumptions == nil {
		doc["assumptions"] = []string{}
	}
	nviol := len(r.violations)
	r.mu.Unlock()

	if path := os.Getenv("VERIF_EVIDENCE"); path != "" {
		b, err := json.MarshalIndent(doc, "", " ")
		if err != nil {
			r.t.Errorf("verif: evidence marshal: %v", err)
		} else {
			_ = os.MkdirAll(filepath.Dir(path), 0o755)
			if err := os.WriteFile(path, b, 0o644); err != nil {
				r.t.Errorf("verif: evidence write: %v", err)
			}
		}
	}
	fmt.Printf("VERIF-SUMMARY property=%s tier=%s seed=%d evaluations=%d distinct_nontrivial=%d violations=%d known=%d wall_s=%.1f\n",
		r.Prop, r.Tier, r.Seed, r.evals, nt, nviol, len(r.knownHit), time.Since(r.start).Seconds())
	if nviol > 0 {
		r.t.Errorf("verif: %d violation signature(s)", nviol)
		return
	}
	if len(inconcl) > 0 {
		fmt.Printf("INCONCLUSIVE property=%s %s\n", r.Prop, strings.Join(inconcl, "; "))
		r.t.Errorf("verif: inconclusive: %s", strings.Join(inconcl, "; "))
	}
}
