#!/bin/bash
# usage: mutcheck.sh <mutation dir> [check ids...]
# Confirms a seeded change (applies, builds, demo fails with / passes without, existing package tests pass)
# in a scratch worktree and runs the property's check against the changed tree.
set -u
D=${1%/}; shift
export GOPROXY=off GOFLAGS=-mod=mod
unset GOSUMDB
NAME=$(basename $D)
PROP=$(python3 -c "import json;print(json.load(open('$D/meta.json'))['property'])")
DEMO_PATH=$(python3 -c "import json;print(json.load(open('$D/meta.json')).get('demo_path',''))")
DEMO_CMD=$(python3 -c "import json;print(json.load(open('$D/meta.json')).get('demo_cmd',''))")
WT=/tmp/mutwt_$NAME
git -C /repo worktree remove --force $WT >/dev/null 2>&1
git -C /repo worktree add --detach $WT HEAD >/dev/null 2>&1 || { echo "$NAME worktree failed"; exit 2; }
cleanup() { git -C /repo worktree remove --force $WT >/dev/null 2>&1; }
trap cleanup EXIT
cd $WT
APPLY=ok
git apply $D/patch.diff 2>/tmp/mutapply_$NAME.log || git apply -3 $D/patch.diff 2>>/tmp/mutapply_$NAME.log || APPLY=conflict
if [ $APPLY = conflict ]; then echo "$NAME prop=$PROP APPLY-CONFLICT $(head -2 /tmp/mutapply_$NAME.log | tr '\n' ' ')"; exit 3; fi
BUILD=ok; go build ./... >/tmp/mutbuild_$NAME.log 2>&1 || BUILD=fail
PKGS=$(git diff --name-only | xargs -n1 dirname | sort -u | sed 's#^#./#' | tr '\n' ' ')
# existing tests of touched packages (without the demo)
EXIST=ok; go test -vet=off -count=1 $PKGS >/tmp/mutexist_$NAME.log 2>&1 || EXIST=FAIL
# demo with the change
DEMOFILE=$(ls $D/*_test.go 2>/dev/null | head -1)
DEMO_WITH=na; DEMO_WITHOUT=na
if [ -n "$DEMOFILE" ] && [ -n "$DEMO_PATH" ]; then
  cp $DEMOFILE $WT/$DEMO_PATH
  if bash -c "cd $WT && $DEMO_CMD" >/tmp/mutdemo_with_$NAME.log 2>&1; then DEMO_WITH=pass; else DEMO_WITH=fail; fi
  git apply -R $D/patch.diff
  if bash -c "cd $WT && $DEMO_CMD" >/tmp/mutdemo_without_$NAME.log 2>&1; then DEMO_WITHOUT=pass; else DEMO_WITHOUT=fail; fi
  git apply $D/patch.diff
  rm -f $WT/$DEMO_PATH
fi
RES=""
for C in ${@:-$PROP}; do
  OUT=$(cd ${VERIF_DIR:-/verif} && VERIF_REPO=$WT bin/check $C --tier ${TIER:-quick} --seed ${SEED:-1} 2>&1); RC=$?
  SIG=$(echo "$OUT" | grep -m2 'signature:' | sed 's/ *signature: //' | tr '\n' ';')
  RES="$RES $C:rc=$RC[$SIG]"
done
echo "$NAME prop=$PROP apply=$APPLY build=$BUILD existing=$EXIST demo_with=$DEMO_WITH demo_without=$DEMO_WITHOUT checks:$RES"
