#!/usr/bin/env python3
"""exit 0 if the crash in the log has a frame inside repository (non-harness) code."""
import re, sys
txt = open(sys.argv[1], errors="replace").read()
i = min([x for x in (txt.find("\npanic: "), txt.find("\nfatal error: ")) if x >= 0] or [-1])
if i < 0:
    i = 0
tail = txt[i:]
# first goroutine block after the crash banner
m = re.search(r"\ngoroutine \d+ \[", tail)
blk = tail[m.start():] if m else tail
blk = blk.split("\n\n")[0]
for line in blk.splitlines():
    line = line.strip()
    if line.startswith("github.com/MixinNetwork/mixin/") and "verifkit" not in line and "verifgen" not in line \
            and "verifledger" not in line and ".TestVerif" not in line and ".verif" not in line and ".Verif" not in line:
        sys.exit(0)
sys.exit(1)
