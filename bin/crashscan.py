#!/usr/bin/env python3
"""exit 0 if the crash in the log has a frame inside repository (non-harness) code
in the crashing goroutine."""
import re, sys
txt = open(sys.argv[1], errors="replace").read()
i = min([x for x in (txt.find("\npanic: "), txt.find("\nfatal error: ")) if x >= 0] or [-1])
if i < 0:
    i = 0
tail = txt[i:]
m = re.search(r"\ngoroutine \d+ \[", tail)
blk = tail[m.start():] if m else tail
blk = blk.split("\n\n")[0]
lines = blk.splitlines()
for k in range(len(lines) - 1):
    fn, loc = lines[k].strip(), lines[k + 1].strip()
    if not fn.startswith("github.com/MixinNetwork/mixin/"):
        continue
    if not re.match(r"/\S+\.go:\d+", loc):
        continue
    path = loc.split(":")[0]
    if "zz_verif" in path or "/verifkit/" in path or "/verifgen/" in path or "/verifledger/" in path or path.endswith("_test.go"):
        continue
    sys.exit(0)
sys.exit(1)
