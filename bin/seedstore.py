#!/usr/bin/env python3
"""seedstore.py <mutcheck result line file>...: store confirmed seeded changes under /verif/seeded/<id>/"""
import json, os, re, shutil, sys
for f in sys.argv[1:]:
    for line in open(f):
        m = re.match(r"(\S+) prop=(\S+) apply=(\S+) build=(\S+) existing=(\S+) demo_with=(\S+) demo_without=(\S+) checks:(.*)", line.strip())
        if not m:
            continue
        name, prop, apply_, build, existing, dwith, dwithout, checks = m.groups()
        src = "/tmp/mut/out/" + name
        confirmed = apply_ == "ok" and build == "ok" and existing == "ok" and dwith == "fail" and dwithout == "pass"
        if not confirmed:
            print(name, "NOT confirmed:", line.strip()[:200]); continue
        dst = "/verif/seeded/" + name
        os.makedirs(dst, exist_ok=True)
        shutil.copy(src + "/patch.diff", dst + "/patch.diff")
        demo = [x for x in os.listdir(src) if x.endswith("_test.go")]
        for d in demo:
            shutil.copy(os.path.join(src, d), os.path.join(dst, d + ".txt"))  # .txt: not compiled by anything
        meta = json.load(open(src + "/meta.json"))
        out = {
            "property": prop,
            "summary": meta.get("summary"),
            "needs_to_manifest": meta.get("needs_to_manifest"),
            "demo_file": [d + ".txt" for d in demo],
            "demo_path_in_repo": meta.get("demo_path"),
            "demo_cmd": meta.get("demo_cmd"),
            "author_ran": meta.get("ran"),
            "author_existing_tests": meta.get("existing_tests"),
            "confirmed_by_lead": {
                "how": "bin/mutcheck.sh in a scratch git worktree of /repo HEAD: git apply patch.diff; go build ./...; existing tests of the touched packages (go test -vet=off -count=1) without the demo; demo with the change; demo after git apply -R",
                "apply": apply_, "build": build, "existing_tests_of_touched_packages": existing,
                "demo_with_change": dwith, "demo_without_change": dwithout,
            },
            "check_result_on_changed_tree": checks.strip(),
        }
        json.dump(out, open(dst + "/meta.json", "w"), indent=1)
        print(name, "stored;", checks.strip()[:160])
