#!/usr/bin/env python3
"""Regenerates /verif/MANIFEST.json from harness/checks.json (one entry per claimed
property) and properties.jsonl. Properties without an entry are listed under
not_applicable with the reason given in harness/not_claimed.json (or a default)."""
import json, os, sys
V = "/verif"
props = [json.loads(l) for l in open(os.path.join(V, "properties.jsonl")) if l.strip()]
checks_src = json.load(open(os.path.join(V, "harness", "checks.json")))
nc_path = os.path.join(V, "harness", "not_claimed.json")
not_claimed = json.load(open(nc_path)) if os.path.exists(nc_path) else {}
import glob
for extra in sorted(glob.glob(os.path.join(V, "harness", "checks.d", "*.json"))):
    for k, v in json.load(open(extra)).items():
        checks_src.setdefault(k, v)
tsv = {}
for path in [os.path.join(V, "harness", "props.tsv")] + sorted(glob.glob(os.path.join(V, "harness", "props.d", "*.tsv"))):
    for l in open(path):
        f = l.split()
        if f and not f[0].startswith("#"):
            tsv.setdefault(f[0], f)

checks, na = [], []
for p in props:
    pid = p["id"]
    c = checks_src.get(pid)
    if c is None or pid not in tsv:
        na.append({"property_id": pid, "reason": not_claimed.get(pid, "no check is registered for this property yet; nothing is claimed")})
        continue
    checks.append({
        "property_id": pid,
        "quick_cmd": "bin/check %s --tier quick" % pid,
        "thorough_cmd": "bin/check %s --tier thorough" % pid,
        "evidence_file": "/verif/evidence/%s.json" % pid,
        "replay_cmd_template": "bin/check %s --replay {path}" % pid,
        "engine": c.get("engine", "go-runtime-monitor"),
        "level_claimed": {
            "category": c["category"],
            "text": c["text"],
            "design_ref": c.get("design_ref", "DESIGN.md section 4, " + pid),
        },
        "level_note": c["note"],
        "technique": c["technique"],
    })

manifest = {
    "version": 1,
    "setup_cmd": "bash bin/setup",
    "hooks": {
        "guard": "verif",
        "enable": "go test -tags verif -overlay <generated overlay.json> -modfile <copy of /repo/go.mod + porcupine>: "
                  "monitors, workloads and add-only accessor files are injected at build time from /verif/harness; "
                  "no instrumentation is committed to the repository",
        "baseline_off_cmd": "cd /repo && GOPROXY=off GOFLAGS=-mod=mod go test -vet=off -count=1 -timeout 25m ./...",
        "source_commits": [],
        "add_only": True,
    },
    "engines": [
        {"name": "go-runtime-monitor", "path": "/verif/bin/check",
         "serves_properties": [c["property_id"] for c in checks],
         "kind_free_text": "bash runner that overlays /verif/harness (kit, generators, monitors) into /repo's working tree, builds the "
                           "package test binary (plain or -race), runs TestVerif_<id> under a QUIT watchdog, scans race-detector logs, "
                           "classifies alarms against known_findings.txt and writes evidence/<id>.json"},
    ],
    "checks": checks,
    "not_applicable": na,
    "notes": "Technique family: runtime monitoring (oracles over executions of the real code; Go race detector for schedule-quantified "
             "properties; crash/restart enumeration at the storage-call boundary; porcupine for recorded histories). "
             "Exit codes of every command: 0 held on what was observed, 1 violation (VIOLATION line), 2 inconclusive. "
             "Known findings: /verif/known_findings.txt.",
}
json.dump(manifest, open(os.path.join(V, "MANIFEST.json"), "w"), indent=1)
print("MANIFEST.json: %d checks, %d not_applicable" % (len(checks), len(na)))
try:
    import jsonschema
    jsonschema.validate(manifest, json.load(open("/root/.vp/MANIFEST.schema.json")))
    print("schema: ok")
except ImportError:
    print("schema: jsonschema not importable with this python; validate with python3-vt")
