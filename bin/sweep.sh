#!/bin/bash
# usage: sweep.sh <tier> <seed> <prop>...   — runs checks one after another, one result line each
cd "$(dirname "$0")/.."
TIER=$1; SEED=$2; shift 2
for p in "$@"; do
  s=$(date +%s)
  out=$(bin/check $p --tier $TIER --seed $SEED 2>&1); rc=$?
  e=$(date +%s)
  echo "$p tier=$TIER seed=$SEED rc=$rc t=$((e-s))s $(echo "$out" | grep -E 'VIOLATION|INCONCLUSIVE|signature' | head -4 | tr '\n' ' ' | cut -c1-400)"
done
