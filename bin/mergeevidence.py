#!/usr/bin/env python3
"""mergeevidence.py <out.json> <part.json>...: merge the evidence of the monitors of one property that ran in several packages."""
import json, sys
out, parts = sys.argv[1], sys.argv[2:]
docs = []
for p in parts:
    try:
        docs.append(json.load(open(p)))
    except Exception:
        pass
if not docs:
    sys.exit(0)
m = docs[0]
cov = m["coverage"]
cov["parts"] = [{"rule": d["coverage"].get("rule", ""), "evaluations": d["coverage"].get("evaluations", 0),
                 "distinct_nontrivial": d["coverage"].get("distinct_nontrivial", 0)} for d in docs]
for d in docs[1:]:
    c = d["coverage"]
    cov["evaluations"] = cov.get("evaluations", 0) + c.get("evaluations", 0)
    cov["distinct_nontrivial"] = cov.get("distinct_nontrivial", 0) + c.get("distinct_nontrivial", 0)
    cov["rule"] = cov.get("rule", "") + " || " + c.get("rule", "")
    cov["samples"] = (cov.get("samples") or []) + (c.get("samples") or [])
    cc = cov.setdefault("counters", {})
    for k, v in (c.get("counters") or {}).items():
        cc[k] = cc.get(k, 0) + v
    for k, v in c.items():
        if k not in cov:
            cov[k] = v
    m["assumptions"] = (m.get("assumptions") or []) + (d.get("assumptions") or [])
    m["wall_s"] = m.get("wall_s", 0) + d.get("wall_s", 0)
    m["violations"] = m.get("violations", 0) + d.get("violations", 0)
json.dump(m, open(out, "w"), indent=1)
