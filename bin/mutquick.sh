#!/bin/bash
# usage: mutquick.sh <mutation dir> [check ids...]   (apply in a scratch worktree, run the checks, remove; no demo/existing-test confirmation)
set -u
D=${1%/}; shift
NAME=$(basename $D)
PROP=$(python3 -c "import json;print(json.load(open('$D/meta.json'))['property'])")
WT=/tmp/mutq_$NAME
git -C /repo worktree remove --force $WT >/dev/null 2>&1
git -C /repo worktree add --detach $WT HEAD >/dev/null 2>&1 || { echo "$NAME worktree failed"; exit 2; }
trap 'git -C /repo worktree remove --force $WT >/dev/null 2>&1' EXIT
(cd $WT && git apply $D/patch.diff) || { echo "$NAME apply failed"; exit 3; }
for C in ${@:-$PROP}; do
  OUT=$(cd ${VERIF_DIR:-/verif} && VERIF_REPO=$WT bin/check $C --tier ${TIER:-quick} --seed ${SEED:-1} 2>&1); RC=$?
  echo "$NAME $C rc=$RC $(echo "$OUT" | grep -m3 'signature:' | tr '\n' ';') $(echo "$OUT" | grep VERIF-SUMMARY | head -1)"
done
