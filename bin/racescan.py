#!/usr/bin/env python3
"""Scan Go race-detector logs of one run.
usage: racescan.py <prop> <tmpdir> <evidence.json> <replay dir> <anchor,anchor,...>
exit 1 when a report has a frame in one of the property's anchor files."""
import glob, hashlib, json, os, re, sys
prop, tmp, evid, rdir, anchors = sys.argv[1:6]
anchors = [a for a in anchors.split(",") if a and a != "-"]
reports = []
for f in sorted(glob.glob(os.path.join(tmp, "race.*"))):
    txt = open(f, errors="replace").read()
    for blk in txt.split("=================="):
        if "WARNING: DATA RACE" in blk:
            reports.append(blk)
def strip(b):
    out = []
    for l in b.splitlines():
        l = l.strip()
        m = re.match(r"(/\S+\.go):\d+", l)
        if m:
            out.append(m.group(1))
    return out
seen, hits, dedup = set(), [], 0
for b in reports:
    files = strip(b)
    key = hashlib.sha256("\n".join(files).encode()).hexdigest()
    if key in seen:
        continue
    seen.add(key); dedup += 1
    # an anchor is a file name ("nonce.go") or, with a trailing slash, a package directory ("crypto/")
    def hit(fl, a):
        if a.endswith("/"):
            return ("/" + a) in fl and "zz_verif" not in fl and not fl.endswith("_test.go")
        return fl.endswith("/" + a)
    if any(any(hit(fl, a) for a in anchors) for fl in files):
        hits.append(b)
rc = 0
if hits:
    h = hashlib.sha256(hits[0].encode()).hexdigest()[:12]
    path = os.path.join(rdir, "%s-race-%s.log" % (prop, h))
    open(path, "w").write("\n==================\n".join(hits))
    print("VIOLATION property=%s replay=%s" % (prop, path))
    print("  what: %d distinct data race report(s) with a frame in %s" % (len(hits), ",".join(anchors)))
    rc = 1
if os.path.exists(evid):
    try:
        d = json.load(open(evid))
        d["coverage"]["race_reports_total"] = len(reports)
        d["coverage"]["race_reports_distinct"] = dedup
        d["coverage"]["race_reports_in_anchor_files"] = len(hits)
        if hits:
            d["violations"] = d.get("violations", 0) + 1
        json.dump(d, open(evid, "w"), indent=1)
    except Exception as e:
        print("racescan: evidence patch failed:", e)
sys.exit(rc)
