#!/usr/bin/env python3
"""Generate overlay.json + go.mod/go.sum for building the harness into /repo's
current working tree without touching it.
usage: mkoverlay.py <repo> <harness dir> <out dir>"""
import json, os, sys

import re
repo, harness, out = sys.argv[1:4]
prop = (sys.argv[4] if len(sys.argv) > 4 else "").lower()
replace = {}

def selected(f):
    """Files named cNN... belong to one property and are only compiled into that
    property's binary, so a broken or slow check cannot affect the others."""
    m = re.match(r"(c\d{2,3})", f)
    if not m:
        return True
    return prop == "" or m.group(1) == prop

def add_dir(src, dst_dir, prefix="", must_suffix=None):
    if not os.path.isdir(src):
        return
    for f in sorted(os.listdir(src)):
        if not f.endswith(".go") or not selected(f):
            continue
        if must_suffix and not f.endswith(must_suffix):
            raise SystemExit("harness file %s/%s must end with %s" % (src, f, must_suffix))
        replace[os.path.join(dst_dir, prefix + f)] = os.path.join(src, f)

# stand-alone helper packages
add_dir(os.path.join(harness, "kit"), os.path.join(repo, "verifkit"))
add_dir(os.path.join(harness, "gen"), os.path.join(repo, "verifgen"))
add_dir(os.path.join(harness, "ledger"), os.path.join(repo, "verifledger"))

def walk(base, prefix, must_suffix):
    if not os.path.isdir(base):
        return
    for root, dirs, files in os.walk(base):
        rel = os.path.relpath(root, base)
        if rel == ".":
            continue
        add_dir(root, os.path.join(repo, rel), prefix, must_suffix)

# add-only accessors next to unexported state (//go:build verif)
walk(os.path.join(harness, "hooks"), "zz_verif_hook_", None)
# monitors + workloads, compiled as test files of the package they observe
walk(os.path.join(harness, "pkg"), "zz_verif_", "_test.go")

for dst in replace:
    if os.path.exists(dst):
        raise SystemExit("overlay target already exists in the repository: " + dst)

with open(os.path.join(out, "overlay.json"), "w") as f:
    json.dump({"Replace": replace}, f, indent=1)

mod = open(os.path.join(repo, "go.mod")).read()
if "anishathalye/porcupine" not in mod:
    mod += "\nrequire github.com/anishathalye/porcupine v1.3.0\n"
open(os.path.join(out, "go.mod"), "w").write(mod)
s = open(os.path.join(repo, "go.sum")).read()
if "anishathalye/porcupine" not in s:
    s += ("github.com/anishathalye/porcupine v1.3.0 h1:yo51Niv8Tg0tAAn5XOG2UVvJXUregK4WFuLrBRoowP8=\n"
          "github.com/anishathalye/porcupine v1.3.0/go.mod h1:WM0SsFjWNl2Y4BqHr/E/ll2yY1GY1jqn+W7Z/84Zoog=\n")
open(os.path.join(out, "go.sum"), "w").write(s)
